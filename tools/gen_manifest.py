#!/usr/bin/env python3
"""Regenerates /verif/MANIFEST.json from the table below (kept valid at all
times; a property without a finished, silent check is listed under
not_applicable with the reason)."""
import json
import os
import subprocess

V = os.path.dirname(os.path.dirname(os.path.abspath(__file__)))
PY = '/venv/bin/python'

# id -> (category, technique, level text, level note, design ref)
CLAIMED = {}


def claim(pid, category, technique, text, note, ref):
    CLAIMED[pid] = (category, technique, text, note, ref)


claim('C01', 'exploration', 'runtime monitor: stream ledger over generated scripted histories',
      'Ledger invariant (handed back + pending == received, TIMEOUT consumes nothing, buffer assignment replaces '
      'pending) evaluated online after every engine-level call of tens of thousands (quick) to millions (thorough) of '
      'generated histories plus an exhaustively enumerated small scope; held-on-observed-executions, not a proof.',
      'Trusts the scripted transport (only read_nonblocking replaced) and the virtual clock; real transports are '
      'covered by C06/C07 and the passive monitors on the repository tests.', '5/C01')
claim('C02', 'exploration', 'runtime monitor: match postcondition with independent re.search/str.find',
      'Postcondition (genuine, leftmost, lowest index, match/match_index consistent) checked at every successful '
      'call of the generated histories, independently of the engine and of the reference model.',
      'Trusts re/str.find as the definition of an occurrence; window = last W characters (slice).', '5/C02')
claim('C03', 'exploration', 'runtime monitor: step predictor (history + executable naive model)',
      'Every engine-level call of every generated history must end at the same read, with the same outcome, as the '
      'naive re-search model; includes targeted read boundaries inside occurrences and exhaustive small scopes.',
      'Trusts models/expect_ref.py (40 lines) as the naive procedure; timeout 0 read count left unspecified.', '5/C03')
claim('C04', 'exploration', 'runtime monitor: outcome-shape oracle on scripted + real transports',
      'EOF/TIMEOUT outcome clauses checked on every marker outcome of the generated histories, on five real '
      'transports (sticky EOF, timeout 0) and on the diagnostic message in every object state.',
      'Real-transport part uses a 1 s bound for calls after EOF (timeout 5 s).', '5/C04')
claim('C20', 'exploration', 'runtime monitor: metamorphic equivalence of pattern forms on scripted transport',
      'Every accepted pattern form is run on the same script and compared; flag subsets for pre-compiled patterns; '
      'invalid objects must raise TypeError before consuming output.',
      'Grammar avoids constructs whose meaning legitimately differs between str and bytes patterns.', '5/C20')

claim('C13', 'exploration', 'runtime monitor: round-trip law + first-match model + probe child report',
      'split_command_line round trip over generated and enumerated argument lists in three quoting styles; which() '
      'against the first-match rule on generated PATH layouts, cross-checked by running the program; a probe child '
      'reports argv/cwd/environ/winsize/echo/SIGHUP and must equal the request (spawn and PopenSpawn).',
      'Quoting functions encode only the documented rules; probe reads /proc/self/environ and termios.', '5/C13')
claim('C18', 'exploration', 'runtime monitor: invariants after every write + metamorphic chunking equivalence',
      'Totality, grid shape, cursor bounds and parser-residue invariants evaluated after every write of enumerated '
      '(all token sequences up to a bound on tiny screens) and random inputs; every input is re-fed in pieces (all cut '
      'points for short inputs) and through process() and must reach the same state.',
      'Runs in a scratch cwd (the emulator appends to ./log); partial multi-byte input to process() not fed.', '5/C18')
claim('C19', 'exploration', 'runtime monitor: reference grid with ambiguity mask + accessor self-consistency',
      'Every operation sequence up to a bound on tiny screens (enumerated) and random long sequences are executed on '
      'the real screen and on a docstring-derived reference grid; grid, cursor, saved cursor and all read accessors '
      'compared after operations.',
      'models/screen_ref.py is trusted as the reading of the docstrings; undocumented cells are masked.', '5/C19')

claim('C05', 'exploration', 'runtime monitor: deadline oracle on a virtual clock + real-time companions',
      'Per-call deadline clauses (overall bound, no early TIMEOUT, None, -1, 0) decided on virtual time over generated '
      'arrival schedules, EINTR storms, four transport classes, six entry points, select/poll; real children for the '
      'cases virtual time cannot model (trickle, echo, hang-up while alive) with wide margins and serial confirmation.',
      'Virtual part replaces os.read/select/poll/time of the pexpect modules and scripts ptyprocess liveness; '
      'timeout=None only up to a horizon.', '5/C05')
claim('C07', 'exploration', 'runtime monitor: decode-as-a-whole oracle over enumerated and random splittings',
      'Delivered text (reads, before, logfile_read) equals one-shot decoding of the whole stream for every cut point '
      '(up to 3 cuts, enumerated for short streams), 13 codecs x 3 error policies, six transports incl. asyncio.',
      'bytes.decode is the definition; garbage only for codecs whose incremental decoder agrees with one-shot.', '5/C07')

claim('C08', 'exploration', 'runtime monitor: peer-side byte log vs independently encoded call sequence',
      'Random send-family call sequences on four transports; a raw-mode peer reports the bytes it read, compared '
      'exactly with an independent incremental encoding of the arguments (one linesep per sendline, documented control '
      'bytes); return values checked per call.',
      'Raw-mode pty peer; control table from the documentation; VEOF/VINTR from the tty.', '5/C08')
claim('C09', 'exploration', 'runtime monitor: exit-status oracle with /proc ground truth',
      'Every fate (exit code / terminating signal) x observation path x random repeated observations on pty and popen '
      'children and run(); attributes and return values compared with the fate by construction, cross-checked with the '
      'raw wait status in /proc before pexpect reaps the zombie.',
      'Trusts /proc/<pid>/stat field 52; wait() only issued when the child has exited.', '5/C09')
claim('C11', 'exploration', 'runtime monitor: recording log objects vs API-boundary event journal',
      'Recording file objects journal every write/flush; compared with the text the read path delivered and the '
      'arguments of the send family, in operation order, flush after every write, API string type; four transports, all '
      'log subsets incl. a shared object, and interact() through the outer-pty driver.',
      'Read-side truth is what the instance read_nonblocking returned; interact part relies on the C15 driver.', '5/C11')
claim('C15', 'exploration', 'runtime monitor: interact trace oracle on an outer pty with os-call proxy',
      'Sessions driven through an outer pty; per stdin read chunk (observed by an os proxy in the driver) the inner '
      'raw-mode child must receive filter(chunk) up to the first escape and nothing after; user side must receive pending '
      '+ output_filter(child reads); return and tty-mode restoration checked.',
      'Non-return within 15 s is a refuting event; inner child is a raw-mode reporter.', '5/C15')

claim('C06', 'fault_enumeration', 'runtime monitor: transport oracle under enumerated placements of peer actions among reader syscalls',
      'The peer (a puppet) writes blocks of unique ids, closes and exits at every placement among the first n system calls '
      'of the reader (poll, read, child-status check, timed wait), performed and awaited just before that call; plus bulk '
      'transfers on four transports, in-process fd/socket placements and PopenSpawn under schedule perturbation. Returned '
      'data must equal what was acknowledged as written, EOF only after all of it, reads <= size, socket timeout restored.',
      'Kernel pty/pipe/socket ordering trusted; the placement is exact because the harness waits until the action is visible.',
      '5/C06')
claim('C10', 'fault_enumeration', 'runtime monitor: lifecycle invariants from /proc after every operation of enumerated sequences',
      'All operation sequences up to a bound (and random longer ones) over the lifecycle alphabet x six child dispositions '
      '(incl. signal-ignoring, stopped, already exited, exiting mid-sequence) on pty, fd and socket transports; invariants '
      'I1-I5 (liveness truth, dead-and-reaped, idempotent close/no leak, I/O after close fails without touching a canary on '
      'the old descriptor number, no stale descriptor number) evaluated after every operation.',
      'Blocking wait() only issued when /proc shows the child exiting; delays lowered via configuration attributes.', '5/C10')

claim('C12', 'exploration', 'runtime monitor: run() oracle against a scripted dialogue child that records what it printed/received',
      'Generated dialogues (prompts, payloads up to 300 KB, pauses around the timeout, exit codes) x event tables (dict/list, '
      'string/function/method, callbacks returning None/str/True, EOF and TIMEOUT keys, overlapping patterns); output, '
      'responses received by the child, callback log and exit status compared with the expectation by construction; '
      'non-return within 20 s is a refuting event.',
      'Raw-mode dialogue child; pauses chosen far from the timeout so the side they fall on is load independent.', '5/C12')
claim('C16', 'exploration', 'runtime monitor: REPL oracle over command families with output known by construction',
      'Random command sequences (bash and python REPLs, blocking and awaited) incl. multi-line blocks, large outputs, '
      'no-newline outputs and incomplete constructs; every return value compared with the generator\'s expected text.',
      'Violations must reproduce in two further serial runs (replwrap has hard-coded 1 s waits); zsh absent.', '5/C16')

claim('C14', 'exploration', 'runtime monitor: twin comparison (blocking vs awaited vs mixed) with delivery units released at shared boundaries',
      'Three fdspawn twins on pipes receive the same delivery units at the same logical points (wrappers on '
      'Expecter.existing_data/new_data); outcomes of every call compared up to and including the first EOF, incl. units '
      'arriving while no call is outstanding, coalesced units, EOF with the last data, mixed blocking/awaited calls on one '
      'object; awaited TIMEOUTs bounded; dedicated timeout=0 sub-check.',
      'Differences must reproduce in two serial re-runs; _async_pre_await.py not importable on 3.12.', '5/C14')

claim('C17', 'exploration', 'runtime monitor: pxssh oracle over the transcript of a scripted fake ssh',
      'Enumerated (all dialogues up to a bound over a 14-step alphabet) and random server dialogues x login options; the '
      'fake ssh records every output/input with sequence numbers; clauses on secrets, yes, True-only-at-a-shell-prompt, '
      'prompt() delimiting and exception-within-timeouts evaluated on the transcript and on login()\'s result.',
      'A scripted client stands in for OpenSSH; overall bound 75 s per login (hard-coded 10 s steps in set_unique_prompt).',
      '5/C17')

PENDING = {
}


def main():
    props = [json.loads(l) for l in open(os.path.join(V, 'properties.jsonl'))]
    try:
        commits = subprocess.run(['git', '-C', '/repo', 'log', '--format=%h %s', '--grep=^hook:'],
                                 stdout=subprocess.PIPE).stdout.decode().split('\n')
        commits = [c for c in commits if c.strip()]
    except Exception:
        commits = []
    checks, na = [], []
    for p in props:
        pid = p['id']
        if pid in CLAIMED and os.path.exists(os.path.join(V, 'pvmon', 'checks', pid.lower() + '.py')):
            cat, tech, text, note, ref = CLAIMED[pid]
            checks.append({
                'property_id': pid,
                'quick_cmd': 'cd /verif && %s -m pvmon check %s --tier quick' % (PY, pid),
                'thorough_cmd': 'cd /verif && %s -m pvmon check %s --tier thorough' % (PY, pid),
                'evidence_file': '/verif/evidence/%s.json' % pid,
                'replay_cmd_template': 'cd /verif && %s -m pvmon check %s --replay {path}' % (PY, pid),
                'engine': 'pvmon',
                'level_claimed': {'category': cat, 'text': text, 'design_ref': 'DESIGN.md section ' + ref},
                'level_note': note,
                'technique': tech,
            })
        else:
            na.append({'property_id': pid,
                       'reason': PENDING.get(pid, 'check not finished yet in this round (runtime monitor designed in '
                                                  'DESIGN.md section 5/%s); not claimed until it is silent on the '
                                                  'unchanged tree' % pid)})
    m = {
        'version': 1,
        'setup_cmd': 'cd /verif && %s -m compileall -q pvmon >/dev/null 2>&1; %s -m pvmon selftest' % (PY, PY),
        'hooks': {
            'guard': 'PEXPECT_VERIF',
            'enable': 'no source hooks: monitors are attached from the harness by wrapping methods and replacing the '
                      'os/time/select module attributes of the pexpect modules; /repo is imported from its working tree',
            'baseline_off_cmd': json.load(open('/root/.vp/BASELINE.json'))['cmd'].replace('<file>', '/tmp/pexpect-junit.xml'),
            'source_commits': commits,
            'add_only': True,
        },
        'engines': [{'name': 'pvmon', 'path': '/verif/pvmon', 'serves_properties': [c['property_id'] for c in checks],
                     'kind_free_text': 'runtime monitors (online oracles, reference models, scripted and real peers) '
                                       'run by the repository interpreter against /repo working tree'}],
        'checks': checks,
        'not_applicable': na,
        'notes': 'Exit codes: 0 held, 1 violation (VIOLATION line), 2 inconclusive (INCONCLUSIVE line). '
                 'Known findings: /verif/known_findings.json. See DESIGN.md.',
    }
    with open(os.path.join(V, 'MANIFEST.json'), 'w') as f:
        json.dump(m, f, indent=1)
        f.write('\n')
    print('claimed', [c['property_id'] for c in checks])


if __name__ == '__main__':
    main()
