#!/bin/sh
# collect_seed.sh <PROP> <name> [worktree]: copy a sub-agent's deliverables from /tmp/seed/wt-<PROP> into /verif/seeded/<PROP>-<name>/
set -e
P=$1; N=$2; W=${3:-/tmp/seed/wt-$P}; D=/verif/seeded/$P-$N
mkdir -p $D
git -C $W diff -- pexpect > $D/patch.diff
# the demonstration checked that pexpect came from the agent's worktree: make the root configurable
sed "s#/tmp/seed/wt-$P#' + __import__('os').environ.get('PVMON_DEMO_ROOT', '/repo') + '#g" $W/demo.py > $D/demo.py.tmp || true
cp $W/demo.py $D/demo.py
python3 - "$D" "$P" "$W" <<'PY'
import sys,re,os
d,p,root=sys.argv[1],sys.argv[2],sys.argv[3]
s=open(os.path.join(d,'demo.py')).read()
# any literal occurrence of the worktree path becomes the configurable root
s=s.replace('"%s"'%root, "__import__('os').environ.get('PVMON_DEMO_ROOT', '/repo')").replace("'%s'"%root, "__import__('os').environ.get('PVMON_DEMO_ROOT', '/repo')")
s=s.replace(root, "/repo")
open(os.path.join(d,'demo.py'),'w').write(s)
PY
rm -f $D/demo.py.tmp
cp $W/meta.json $D/meta.json
echo collected $D; ls $D
