#!/usr/bin/env python3
"""Runs the checks against the independently written breaking changes kept in
/verif/seeded/<id>/ (patch.diff, demo.py, meta.json).

For each: the patch is applied to a scratch copy of /repo's pexpect package
(outside /repo and /verif; /repo itself is never modified), the demonstration
is run against the copy (must fail) and against /repo (must pass), then the
quick check of the property it breaks - and with --all every other claimed
check too - is run with PVMON_REPO pointing at the copy.  Result:
seeded/<id>/result.json and a table on stdout.

usage: seeded_check.py [--all] [--tier quick|thorough] [id ...]
"""
import json
import os
import shutil
import subprocess
import sys
import tempfile
import time

V = os.path.dirname(os.path.dirname(os.path.abspath(__file__)))
PY = '/venv/bin/python'


def run(cmd, env=None, cwd=None, timeout=1800):
    try:
        p = subprocess.run(cmd, env=env, cwd=cwd, stdout=subprocess.PIPE, stderr=subprocess.STDOUT, timeout=timeout)
        return p.returncode, p.stdout.decode('utf-8', 'replace')
    except subprocess.TimeoutExpired as e:
        return 'timeout', (e.stdout or b'').decode('utf-8', 'replace')


def main():
    args = sys.argv[1:]
    allchecks = '--all' in args
    tier = 'quick'
    if '--tier' in args:
        tier = args[args.index('--tier') + 1]
    ids = [a for a in args if not a.startswith('--') and a not in ('quick', 'thorough')]
    root = os.path.join(V, 'seeded')
    names = sorted(d for d in os.listdir(root) if os.path.isdir(os.path.join(root, d)))
    if ids:
        names = [n for n in names if n in ids]
    claimed = [c['property_id'] for c in json.load(open(os.path.join(V, 'MANIFEST.json')))['checks']]
    for name in names:
        d = os.path.join(root, name)
        meta = json.load(open(os.path.join(d, 'meta.json')))
        prop = meta['property']
        tmp = tempfile.mkdtemp(prefix='pvmon-seed-')
        res = {'id': name, 'property': prop, 'checks': {}}
        try:
            shutil.copytree('/repo/pexpect', os.path.join(tmp, 'pexpect'))
            rc, out = run(['patch', '-p1', '-s', '-i', os.path.join(d, 'patch.diff')], cwd=tmp)
            if rc:
                res['error'] = 'patch does not apply: ' + out[-200:]
                print('%-12s %s' % (name, res['error']))
                continue
            demo = os.path.join(d, 'demo.py')
            if os.path.exists(demo):
                env = dict(os.environ, PYTHONPATH=tmp, PVMON_DEMO_ROOT=tmp)
                rc1, o1 = run([PY, demo], env=env, cwd=tmp, timeout=300)
                env2 = dict(os.environ, PYTHONPATH='/repo', PVMON_DEMO_ROOT='/repo')
                rc2, o2 = run([PY, demo], env=env2, cwd='/repo', timeout=300)
                res['demo_with_change_rc'] = rc1
                res['demo_without_change_rc'] = rc2
            todo = [prop] + ([c for c in claimed if c != prop] if allchecks else [])
            for c in todo:
                env = dict(os.environ, PVMON_REPO=tmp, PVMON_EVIDENCE_DIR=os.path.join(tmp, 'ev'),
                           PVMON_REPLAY_DIR=os.path.join(tmp, 'rp'), PYTHONHASHSEED='0')
                t0 = time.time()
                rc, out = run([PY, '-m', 'pvmon', 'check', c, '--tier', tier], env=env, cwd=V)
                mechs = sorted(set(l.split('mechanism=')[1].split(' ')[0] for l in out.splitlines() if 'mechanism=' in l))
                verdict = 'CAUGHT' if rc == 1 and 'VIOLATION property=' + c in out else 'inconclusive' if rc == 2 else 'missed'
                res['checks'][c] = {'verdict': verdict, 'mechanisms': mechs, 'wall_s': round(time.time() - t0, 1)}
            own = res['checks'][prop]
            others = [c for c, r in res['checks'].items() if c != prop and r['verdict'] == 'CAUGHT']
            print('%-12s %s demo(with/without)=%r/%r  %s: %s %s  also caught by: %s' % (
                name, prop, res.get('demo_with_change_rc'), res.get('demo_without_change_rc'), prop, own['verdict'],
                ','.join(own['mechanisms'])[:120], ','.join(others) or '-'), flush=True)
        finally:
            shutil.rmtree(tmp, ignore_errors=True)
            with open(os.path.join(d, 'result.json'), 'w') as f:
                json.dump(res, f, indent=1, sort_keys=True)
                f.write('\n')
    return 0


if __name__ == '__main__':
    sys.exit(main())
