#!/usr/bin/env python3
"""Mutation audit (DESIGN.md section 7; not a registered check).

Each mutants/<Cxx>-<name>.patch is applied to a scratch copy of /repo's pexpect
package (outside /repo and /verif), the property's quick check is run against
the copy (PVMON_REPO), and a VIOLATION line is required.  Evidence and replay
files of audit runs go to a scratch directory.  The scratch copy is removed
after each mutant.

usage: mutation_audit.py [-j N] [pattern ...]     (pattern: substring of the patch name)
"""
import concurrent.futures
import glob
import os
import shutil
import subprocess
import sys
import tempfile
import time

V = os.path.dirname(os.path.dirname(os.path.abspath(__file__)))
PY = '/venv/bin/python'


def run_one(patch):
    name = os.path.basename(patch)[:-6]
    prop = name.split('-')[0]
    tmp = tempfile.mkdtemp(prefix='pvmon-mut-')
    try:
        shutil.copytree('/repo/pexpect', os.path.join(tmp, 'pexpect'))
        p = subprocess.run(['patch', '-p1', '-s', '-i', patch], cwd=tmp, stdout=subprocess.PIPE, stderr=subprocess.STDOUT)
        if p.returncode:
            return name, 'PATCH-FAILED', p.stdout.decode()[-200:], 0
        imp = subprocess.run([PY, '-c', 'import pexpect, pexpect.pxssh, pexpect.replwrap, pexpect.popen_spawn, pexpect.fdpexpect, '
                              'pexpect.socket_pexpect, pexpect.ANSI'], cwd=tmp, env=dict(os.environ, PYTHONPATH=tmp, PYTHONWARNINGS='ignore'),
                             stdout=subprocess.PIPE, stderr=subprocess.STDOUT)
        if imp.returncode:
            return name, 'DOES-NOT-IMPORT', imp.stdout.decode()[-200:], 0
        env = dict(os.environ, PVMON_REPO=tmp, PVMON_EVIDENCE_DIR=os.path.join(tmp, 'evidence'),
                   PVMON_REPLAY_DIR=os.path.join(tmp, 'replays'), PYTHONHASHSEED='0')
        t0 = time.time()
        try:
            r = subprocess.run([PY, '-m', 'pvmon', 'check', prop, '--tier', 'quick'], cwd=V, env=env, stdout=subprocess.PIPE,
                               stderr=subprocess.STDOUT, timeout=900)
            out = r.stdout.decode('utf-8', 'replace')
            rc = r.returncode
        except subprocess.TimeoutExpired as e:
            out, rc = (e.stdout or b'').decode('utf-8', 'replace'), 'timeout'
        dt = time.time() - t0
        mechs = sorted(set(l.split('mechanism=')[1].split(' ')[0] for l in out.splitlines() if 'mechanism=' in l))
        if rc == 1 and 'VIOLATION property=%s' % prop in out:
            return name, 'CAUGHT', ','.join(mechs)[:160], dt
        if rc == 2:
            return name, 'INCONCLUSIVE', out[-300:].replace('\n', ' | '), dt
        return name, 'MISSED', ('rc=%r ' % rc) + out[-200:].replace('\n', ' | '), dt
    finally:
        shutil.rmtree(tmp, ignore_errors=True)


def main():
    args = sys.argv[1:]
    jobs = 2
    if args[:1] == ['-j']:
        jobs = int(args[1])
        args = args[2:]
    patches = sorted(glob.glob(os.path.join(V, 'mutants', '*.patch')))
    if args:
        patches = [p for p in patches if any(a in os.path.basename(p) for a in args)]
    res = []
    with concurrent.futures.ThreadPoolExecutor(jobs) as ex:
        for name, verdict, info, dt in ex.map(run_one, patches):
            print('%-14s %-42s %5.0fs  %s' % (verdict, name, dt, info), flush=True)
            res.append((name, verdict, info, dt))
    if not args:
        with open(os.path.join(V, 'mutants', 'AUDIT.tsv'), 'w') as f:
            for name, verdict, info, dt in sorted(res):
                f.write('%s\t%s\t%.0f\t%s\n' % (name, verdict, dt, info))
    n = sum(1 for r in res if r[1] == 'CAUGHT')
    print('%d of %d caught' % (n, len(res)))
    return 0


if __name__ == '__main__':
    sys.exit(main())
