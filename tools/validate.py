#!/usr/bin/env python3
"""Validate MANIFEST.json and evidence/*.json against the given schemas (uses
jsonschema from the tooling venv: run with python3-vt)."""
import json, sys, glob, os
import jsonschema
V = os.path.dirname(os.path.dirname(os.path.abspath(__file__)))
ok = True
ms = json.load(open('/root/.vp/MANIFEST.schema.json'))
es = json.load(open('/root/.vp/EVIDENCE.schema.json'))
try:
    m = json.load(open(os.path.join(V, 'MANIFEST.json')))
    jsonschema.validate(m, ms)
    print('MANIFEST ok: %d checks, %d not_applicable' % (len(m['checks']), len(m.get('not_applicable', []))))
except Exception as e:
    ok = False
    print('MANIFEST INVALID', e)
for f in sorted(glob.glob(os.path.join(V, 'evidence', '*.json'))):
    try:
        jsonschema.validate(json.load(open(f)), es)
        print('ok', os.path.basename(f))
    except Exception as e:
        ok = False
        print('INVALID', f, str(e)[:300])
sys.exit(0 if ok else 1)
