#!/usr/bin/env python3
"""Generates /verif/mutants/<property>-<name>.patch from the table below: the
"breaks we expect to catch" of DESIGN.md section 5, as textual replacements
against the current /repo tree (so the patches always apply to HEAD)."""
import difflib
import os
import sys

REPO = os.environ.get('PVMON_REPO', '/repo')
OUT = os.path.join(os.path.dirname(os.path.dirname(os.path.abspath(__file__))), 'mutants')

M = []


def m(prop, name, path, old, new, why, count=1):
    M.append((prop, name, path, old, new, why, count))


E, SB, PS = 'pexpect/expect.py', 'pexpect/spawnbase.py', 'pexpect/pty_spawn.py'
FD, PO, SO, UT = 'pexpect/fdpexpect.py', 'pexpect/popen_spawn.py', 'pexpect/socket_pexpect.py', 'pexpect/utils.py'
RUN, AS, RW, PX = 'pexpect/run.py', 'pexpect/_async_w_await.py', 'pexpect/replwrap.py', 'pexpect/pxssh.py'
AN, SC = 'pexpect/ANSI.py', 'pexpect/screen.py'

# ---- C01
m('C01', 'timeout-clears-pending', E, "        spawn.before = spawn._before.getvalue()\n        spawn.after = TIMEOUT\n",
  "        spawn.before = spawn._before.getvalue()\n        spawn._before = spawn.buffer_type()\n        spawn._buffer = spawn.buffer_type()\n        spawn.after = TIMEOUT\n",
  'timeout() clears the pending text')
m('C01', 'eof-keeps-pending', E, "        spawn.before = spawn._before.getvalue()\n        spawn._buffer = spawn.buffer_type()\n        spawn._before = spawn.buffer_type()\n        spawn.after = EOF\n",
  "        spawn.before = spawn._before.getvalue()\n        spawn.after = EOF\n", 'eof() does not clear the pending text')
m('C01', 'readline-drops-separator', SB, "            return self.before + self.crlf\n", "            return self.before\n",
  'readline drops the separator')
m('C01', 'buffer-setter-ignored', SB, "        self._before = self.buffer_type()\n        self._before.write(value)\n", "", 'revert of the buffer-setter fix')
m('C01', 'zero-width-slice', E, "                0:len(before_all) - (len(window) - searcher.start)]", "                0:-(len(window) - searcher.start)]",
  'revert of the [0:-0] fix')
m('C01', 'before-from-trimmed-buffer', E, "            before_all = spawn._before.getvalue()\n", "            before_all = spawn._buffer.getvalue()\n",
  'before built from the trimmed search buffer')
# ---- C02
m('C02', 'exact-ties-last-wins', E, "            if n >= 0 and (first_match is None or n < first_match):", "            if n >= 0 and (first_match is None or n <= first_match):",
  'exact searcher: on ties the last pattern wins')
m('C02', 're-ties-last-wins', E, "            if first_match is None or n < first_match:", "            if first_match is None or n <= first_match:",
  'regex searcher: on ties the last pattern wins')
m('C02', 'match_index-zero', E, "            spawn.match_index = index\n            # Found a match", "            spawn.match_index = 0\n            # Found a match",
  'match_index always 0')
m('C02', 're-rightmost', E, "                the_match = match\n                best_index = index\n", "                the_match = match\n                best_index = index\n            elif n > first_match and len(self._searches) > 2:\n                first_match = n\n                the_match = match\n                best_index = index\n",
  'regex searcher prefers a later occurrence when >2 patterns')
# ---- C03
m('C03', 'exact-offset-no-lookback', E, "                offset = -(freshlen + len(s))", "                offset = -freshlen",
  'exact searcher does not look back len(s): misses occurrences that straddle reads')
m('C03', 'lookback-minus-two', E, "            self.lookback = searcher.longest_string\n", "            self.lookback = max(1, searcher.longest_string - 2)\n",
  'look-back too short (longest_string - 1 is still enough, -2 is not)')
m('C03', 'window-not-rebuilt', E, "            elif buf_len < self.searchwindowsize:", "            elif False:",
  'window not rebuilt from the untrimmed text when W grew')
m('C03', 'window-data-trim', E, "                window = data[-self.searchwindowsize:]\n", "                window = data[-self.searchwindowsize + 1:]\n",
  'window one character short for big chunks')
# ---- C04
m('C04', 'eof-uses-timeout-index', E, "        index = self.searcher.eof_index\n", "        index = self.searcher.timeout_index\n", 'eof() returns the TIMEOUT index')
m('C04', 'timeout-before-trimmed', E, "        spawn.before = spawn._before.getvalue()\n        spawn.after = TIMEOUT\n", "        spawn.before = spawn.buffer\n        spawn.after = TIMEOUT\n",
  'after TIMEOUT before is the trimmed search buffer')
m('C04', 'timeout0-skips-pending', E, "            idx = self.existing_data()\n            if idx is not None:\n                return idx\n            while True:",
  "            idx = self.existing_data() if timeout != 0 else None\n            if idx is not None:\n                return idx\n            while True:",
  'timeout=0 does not examine pending text')
m('C04', 'timeout-raises-eof-class', E, "            exc = TIMEOUT(msg)\n", "            exc = EOF(msg)\n", 'wrong exception class on timeout')
m('C04', 'socket-timeout0', SO, "        except (socket.timeout, BlockingIOError):", "        except socket.timeout:", 'revert of the socket timeout=0 fix')
# ---- C05
m('C05', 'per-read-timeout', E, "                if timeout is not None:\n                    timeout = end_time - time.time()\n        except EOF as e:",
  "                if timeout is not None:\n                    timeout = timeout\n        except EOF as e:", 'remaining time not recomputed: a per-read timeout')
m('C05', 'eintr-restarts-full-timeout', UT, "                if timeout is not None:\n                    timeout = end_time - time.time()\n                    if timeout < 0:\n                        return([], [], [])",
  "                if timeout is not None:\n                    pass", 'EINTR restarts the full timeout (select path)')
m('C05', 'expect_exact-ignores-minus-one', SB, "        if timeout == -1:\n            timeout = self.timeout\n        if 'async' in kw:\n            async_ = kw.pop('async')\n        if kw:\n            raise TypeError(\"Unknown keyword arguments: {}\".format(kw))\n\n        if (isinstance(pattern_list",
  "        if 'async' in kw:\n            async_ = kw.pop('async')\n        if kw:\n            raise TypeError(\"Unknown keyword arguments: {}\".format(kw))\n\n        if (isinstance(pattern_list", 'expect_exact drops the -1 convention')
m('C05', 'negative-becomes-nonpositive', E, "                if (timeout is not None) and (timeout < 0):", "                if (timeout is not None) and (timeout <= 0):",
  'timeout 0 treated as expired')
m('C05', 'waitnoecho-none', PS, "            if timeout is not None and timeout < 0:", "            if timeout < 0 and timeout is not None:", 'revert of the waitnoecho fix')
m('C05', 'expect_loop-minus-one', SB, "        if timeout == -1:\n            timeout = self.timeout\n\n        exp = Expecter(self, searcher, searchwindowsize)", "        exp = Expecter(self, searcher, searchwindowsize)",
  'revert of the expect_loop -1 fix')
m('C05', 'poll-timeout-seconds-as-ms', UT, "            timeout_ms = None if timeout is None else timeout * 1000", "            timeout_ms = None if timeout is None else timeout * 2000",
  'poll waits twice as long')
# ---- C06
m('C06', 'no-repoll-for-dead-child', PS, "            if select(0):\n                return super(spawn, self).read_nonblocking(size)\n            self.flag_eof = True\n            raise EOF('End Of File (EOF). Braindead platform.')",
  "            self.flag_eof = True\n            raise EOF('End Of File (EOF). Braindead platform.')", 'no re-poll when the child is found dead before the wait')
m('C06', 'no-repoll-after-wait', PS, "            if select(0):\n                return super(spawn, self).read_nonblocking(size)\n            self.flag_eof = True\n            raise EOF('End of File (EOF). Very slow platform.')",
  "            self.flag_eof = True\n            raise EOF('End of File (EOF). Very slow platform.')", 'revert of the EOF-before-last-output fix')
m('C06', 'read-size-plus-one', SB, "            s = os.read(self.child_fd, size)", "            s = os.read(self.child_fd, size + 1)", 'reads one byte more than requested')
m('C06', 'socket-timeout-not-restored-on-error', SO, "        try:\n            self.socket.settimeout(timeout)\n            yield\n        finally:\n            self.socket.settimeout(saved_timeout)",
  "        self.socket.settimeout(timeout)\n        yield\n        self.socket.settimeout(saved_timeout)", 'socket timeout not restored when the read raises')
m('C06', 'popen-loses-char-over-size', PO, "        r, self._buf = buf[:size], buf[size:]", "        r, self._buf = buf[:size], buf[size + 1:]", 'PopenSpawn drops a character when more than size is buffered')
m('C06', 'timeout-treated-as-eof', PS, "        else:\n            raise TIMEOUT('Timeout exceeded.')", "        else:\n            self.flag_eof = True\n            raise EOF('slow')", 'a timed-out wait is reported as EOF')
m('C06', 'fastpath-loop-swallows-data', PS, "                    incoming += super(spawn, self).read_nonblocking(size - len(incoming))", "                    incoming = super(spawn, self).read_nonblocking(size - len(incoming))",
  'second read of the fast path overwrites the first')
# ---- C07
m('C07', 'per-chunk-decode', SB, "        s = self._decoder.decode(s, final=False)\n        self._log(s, 'read')\n        return s", "        s = s.decode(self.encoding, self.codec_errors) if self.encoding else s\n        self._log(s, 'read')\n        return s", 'each chunk decoded on its own')
m('C07', 'decode-final-true', SB, "        s = self._decoder.decode(s, final=False)\n        self._log(s, 'read')\n        return s", "        s = self._decoder.decode(s, final=True)\n        self._log(s, 'read')\n        return s", 'final=True on every chunk')
m('C07', 'async-per-chunk-decode', AS, "        s = spawn._decoder.decode(data)", "        s = data.decode(spawn.encoding, spawn.codec_errors) if spawn.encoding else data", 'asyncio path decodes per chunk')
m('C07', 'popen-final-true', PO, "                buf += self._decoder.decode(incoming, final=False)", "                buf += self._decoder.decode(incoming, final=True)", 'PopenSpawn decodes with final=True')
m('C07', 'socket-no-decode', SO, "                s = self._decoder.decode(s, final=False)\n                self._log(s, 'read')\n", "", 'revert of the socket decode/log fix')
# ---- C08
m('C08', 'sendline-crlf', PS, "        return self.send(s + self.linesep)", "        return self.send(s + self.linesep + self.linesep)", 'sendline adds the separator twice')
m('C08', 'send-returns-chars', PS, "        b = self._encoder.encode(s, final=False)\n        return os.write(self.child_fd, b)", "        b = self._encoder.encode(s, final=False)\n        os.write(self.child_fd, b)\n        return len(s)", 'send returns characters, not bytes')
m('C08', 'writelines-adds-separators', PS, "        for s in sequence:\n            self.write(s)", "        for s in sequence:\n            self.sendline(s)", 'writelines adds line separators')
m('C08', 'bytes-mode-str-latin1', SB, "            return s.encode('utf-8')\n        return s\n\n    def _get_buffer", "            return s.encode('latin-1', 'replace')\n        return s\n\n    def _get_buffer", 'text given in bytes mode encoded as latin-1')
m('C08', 'fd-sendline-no-linesep', FD, "        return self.send(s + self.linesep)", "        return self.send(s)", 'fdspawn.sendline adds no separator')
m('C08', 'socket-send-returns-chars', SO, "        self.socket.sendall(b)\n        return len(b)", "        self.socket.sendall(b)\n        return len(s)", 'SocketSpawn.send returns characters')
# ---- C09
m('C09', 'swap-status-fields', PS, "            self.exitstatus = ptyproc.exitstatus\n            self.signalstatus = ptyproc.signalstatus\n            self.terminated = True\n\n        return alive",
  "            self.exitstatus = ptyproc.signalstatus\n            self.signalstatus = ptyproc.exitstatus\n            self.terminated = True\n\n        return alive", 'isalive() swaps exitstatus and signalstatus')
m('C09', 'wait-does-not-copy-status', PS, "        self.status = ptyproc.status\n        self.exitstatus = ptyproc.exitstatus\n        self.signalstatus = ptyproc.signalstatus\n        self.terminated = True\n\n        return exitstatus",
  "        self.exitstatus = ptyproc.exitstatus\n        self.signalstatus = ptyproc.signalstatus\n        self.terminated = True\n\n        return exitstatus", 'wait() does not copy status')
m('C09', 'popen-signal-sign', PO, "            self.signalstatus = -status", "            self.signalstatus = status", 'PopenSpawn.wait keeps the negative number')
m('C09', 'run-status-before-close', RUN, "        child.close()\n        return (child_result, child.exitstatus)", "        st = child.exitstatus\n        child.close()\n        return (child_result, st)", 'run() reads the exit status before close()')
m('C09', 'wait-returns-status-word', PS, "        return exitstatus\n\n    def isalive", "        return ptyproc.status\n\n    def isalive", 'wait() returns the raw status word')
# ---- C10
m('C10', 'close-keeps-child_fd', PS, "        self.isalive()  # Update exit status from ptyproc\n        self.child_fd = -1\n", "        self.isalive()  # Update exit status from ptyproc\n", 'close() does not reset child_fd')
m('C10', 'terminate-force-skips-kill', PS, "            if force:\n                self.kill(signal.SIGKILL)", "            if False:\n                self.kill(signal.SIGKILL)", 'terminate(force=True) never sends SIGKILL')
m('C10', 'fd-close-no-early-return', FD, "        if self.child_fd == -1:\n            return\n\n        self.flush()\n        os.close(self.child_fd)", "        self.flush()\n        os.close(self.child_fd)", 'fdspawn.close() is not idempotent')
m('C10', 'failed-close-keeps-fd', PS, "            self.child_fd = -1\n            raise\n", "            raise\n", 'revert of the stale child_fd fix')
m('C10', 'close-ignores-force', PS, "                self.ptyproc.close(force=force)", "                self.ptyproc.close(force=False)", 'close() never escalates to SIGKILL')
m('C10', 'socket-close-keeps-fd', SO, "        self.socket.close()\n        self.child_fd = -1\n        self.closed = True", "        self.socket.close()\n        self.closed = True", 'SocketSpawn.close keeps child_fd')
m('C10', 'terminated-set-while-alive', PS, "        if not alive:\n            self.status = ptyproc.status", "        if True:\n            self.status = ptyproc.status", 'isalive() marks a running child terminated')
# ---- C11
m('C11', 'no-flush', SB, "            self.logfile.write(s)\n            self.logfile.flush()", "            self.logfile.write(s)", 'logfile not flushed')
m('C11', 'second-log-twice', SB, "            second_log.write(s)\n            second_log.flush()", "            second_log.write(s)\n            second_log.write(s)\n            second_log.flush()", 'logfile_read/send written twice')
m('C11', 'log-before-decode', SB, "        s = self._decoder.decode(s, final=False)\n        self._log(s, 'read')\n        return s", "        self._log(s, 'read')\n        s = self._decoder.decode(s, final=False)\n        return s", 'raw bytes logged before decoding')
m('C11', 'popen-read-not-logged', PO, "        self._log(r, 'read')\n        return r", "        return r", 'PopenSpawn does not log reads')
m('C11', 'control-chars-not-logged', PS, "        n, byte = self.ptyproc.sendcontrol(char)\n        self._log_control(byte)", "        n, byte = self.ptyproc.sendcontrol(char)", 'sendcontrol not logged')
m('C11', 'interact-logs-bytes', PS, "                self._log(decoders[direction].decode(data), direction)", "                self._log(data, direction)", 'revert of the interact log fix')
m('C11', 'direction-swapped', SB, "        second_log = self.logfile_send if (direction=='send') else self.logfile_read", "        second_log = self.logfile_read if (direction=='send') else self.logfile_send", 'send/read logs swapped')
# ---- C12
m('C12', 'result-before-only', RUN, "                child_result_list.append(child.before + child.after)", "                child_result_list.append(child.before)", 'matched text not included in the result')
m('C12', 'responses-reversed', RUN, "        responses = list(events.values())", "        responses = list(events.values())[::-1]", 'dict responses misaligned with the patterns')
m('C12', 'timeout-event-duplicates', RUN, "            elif child.after is TIMEOUT:", "            elif False:", 'revert of the TIMEOUT-event duplication fix')
m('C12', 'eof-event-loops', RUN, "            if child.after is EOF:\n                # Nothing more can arrive", "            if False:\n                # Nothing more can arrive", 'revert of the EOF-event loop fix')
m('C12', 'callback-string-not-sent', RUN, "                if isinstance(callback_result, child.allowed_string_types):\n                    child.send(callback_result)", "                if isinstance(callback_result, child.allowed_string_types):\n                    pass", 'a string returned by a callback is not sent')
m('C12', 'event-count-stuck', RUN, "            event_count = event_count + 1\n", "            event_count = event_count\n", 'event_count never advances')
# ---- C13
m('C13', 'tabs-not-separators', UT, "            elif c.isspace():", "            elif c == ' ':", 'only the space character separates arguments')
m('C13', 'path-order-reversed', UT, "    for path in pathlist:", "    for path in reversed(pathlist):", 'PATH searched from the end')
m('C13', 'env-ignored-for-lookup', PS, "        command_with_path = which(self.command, env=self.env)", "        command_with_path = which(self.command)", 'env argument ignored when looking up the command')
m('C13', 'dimensions-dropped', PS, "            kwargs['dimensions'] = dimensions", "            pass", 'dimensions not passed on')
m('C13', 'sighup-wrapper-missing', PS, "        if self.ignore_sighup:\n            def preexec_wrapper", "        if False:\n            def preexec_wrapper", 'ignore_sighup has no effect')
m('C13', 'leading-whitespace', UT, "    state = state_whitespace\n", "    state = state_basic\n", 'revert of the leading-whitespace fix')
m('C13', 'backslash-in-quotes', UT, "        elif state == state_doublequote:\n            if c == r'\"':\n                state = state_basic", "        elif state == state_doublequote:\n            if c == '\\\\':\n                state = state_esc\n            elif c == r'\"':\n                state = state_basic", 'backslash inside double quotes escapes (and leaves the quotes)')
m('C13', 'which-accepts-nonexec', UT, "    return os.access(fpath, os.X_OK)", "    return True", 'non-executable files accepted')
m('C13', 'cwd-dropped', PS, "                                     cwd=self.cwd, **kwargs)", "                                     cwd=None, **kwargs)", 'cwd not passed on')
# ---- C14
m('C14', 'async-skips-existing-data', AS, "    idx = expecter.existing_data()\n    if idx is not None:\n        return idx", "    idx = None", 'awaited call does not search the pending text first')
m('C14', 'async-eof-uses-timeout', AS, "            index = self.expecter.eof()", "            index = self.expecter.timeout()", 'EOF on the asyncio path reported as TIMEOUT')
m('C14', 'async-no-resume', AS, "        pattern_waiter.set_expecter(expecter)\n        transport.resume_reading()", "        pattern_waiter.set_expecter(expecter)", 'transport not resumed on re-use')
m('C14', 'async-keeps-old-expecter', AS, "        pattern_waiter, transport = expecter.spawn.async_pw_transport\n        pattern_waiter.set_expecter(expecter)", "        pattern_waiter, transport = expecter.spawn.async_pw_transport\n        pattern_waiter.fut = asyncio.Future()", 'second awaited call keeps the previous searcher')
m('C14', 'async-timeout-not-handled', AS, "        transport.pause_reading()\n        return expecter.timeout(exc)", "        transport.pause_reading()\n        raise", 'asyncio.TimeoutError escapes instead of TIMEOUT')
# ---- C15
m('C15', 'escape-delivered', PS, "                    data = data[:i]\n", "                    data = data[:i + 1]\n", 'the escape character itself is sent to the child')
m('C15', 'mode-not-restored', PS, "            tty.tcsetattr(self.STDIN_FILENO, tty.TCSAFLUSH, mode)", "            pass", 'terminal mode not restored')
m('C15', 'pending-not-flushed', PS, "        self.write_to_stdout(self._before.getvalue())\n        self.stdout.flush()", "        self.stdout.flush()", 'pending output not shown first')
m('C15', 'pending-flush-from-search-buffer', PS, "        self.write_to_stdout(self._before.getvalue())\n", "        self.write_to_stdout(self.buffer)\n", 'revert of the pending-text flush fix (only the trimmed search buffer is shown)')
m('C15', 'rfind-escape', PS, "                    i = data.find(escape_character)", "                    i = data.rfind(escape_character)", 'revert of the rfind fix')
m('C15', 'output-filter-after-write', PS, "                if output_filter:\n                    data = output_filter(data)\n                log(data, 'read')\n                os.write(self.STDOUT_FILENO, data)", "                os.write(self.STDOUT_FILENO, data)\n                if output_filter:\n                    data = output_filter(data)\n                log(data, 'read')", 'output_filter applied after writing')
m('C15', 'input-filter-after-escape-check', PS, "                if input_filter:\n                    data = input_filter(data)\n                i = -1\n                if escape_character is not None:\n                    i = data.find(escape_character)", "                i = -1\n                if escape_character is not None:\n                    i = data.find(escape_character)\n                if input_filter:\n                    data = input_filter(data)", 'escape searched before input_filter')
# ---- C16
m('C16', 'result-order', RW, "        return u''.join(res + [self.child.before])", "        return u''.join([self.child.before] + res)", 'multi-line output pieces joined in the wrong order')
m('C16', 'prompt-as-regex', RW, "        return self.child.expect_exact([self.prompt, self.continuation_prompt],", "        return self.child.expect([self.prompt, self.continuation_prompt],", 'prompt matched as a regex')
m('C16', 'no-resync-after-continuation', RW, "            self.child.kill(signal.SIGINT)\n            self._expect_prompt(timeout=1)\n            raise ValueError(\"Continuation prompt found - input was incomplete:\\n\"", "            self.child.kill(signal.SIGINT)\n            raise ValueError(\"Continuation prompt found - input was incomplete:\\n\"", 'no resynchronisation after an incomplete command')
m('C16', 'async-drops-pieces', AS, "    return \"\".join(res + [repl.child.before])", "    return repl.child.before", 'awaited form returns only the last piece')
m('C16', 'first-line-output-dropped', RW, "            self._expect_prompt(timeout=timeout)\n            res.append(self.child.before)", "            self._expect_prompt(timeout=timeout)\n            res.append(self.child.before[:0])", 'output printed between the lines of a block is dropped')
# ---- C17
m('C17', 'password-at-original-prompt', PX, "        if i==2: # password or passphrase\n            self.sendline(password)", "        if i==2 or i==1: # password or passphrase\n            self.sendline(password)", 'password sent when the original prompt is seen')
m('C17', 'yes-to-terminal-question', PX, "        if i==4:\n            self.sendline(terminal_type)", "        if i==4:\n            self.sendline('yes')", 'yes sent as the answer to the terminal-type question')
m('C17', 'prompt-reset-failure-swallowed', PX, "            if not self.set_unique_prompt():\n                self.close()", "            if not self.set_unique_prompt() and False:\n                self.close()", 'failure to set the unique prompt ignored')
m('C17', 'denied-returns-true', PX, "        elif i==3: # permission denied -- password was bad.\n            self.close()\n            raise ExceptionPxssh('permission denied')", "        elif i==3: # permission denied -- password was bad.\n            pass", 'permission denied treated as success')
m('C17', 'password-twice', PX, "        elif i==2: # password prompt again", "        elif i==2 and self.sendline(password) and False: # password prompt again", 'password sent a second time')
m('C17', 'sync-failure-swallowed', PX, "            if not self.sync_original_prompt(sync_multiplier):\n                self.close()\n                raise ExceptionPxssh('could not synchronize with original prompt')", "            self.sync_original_prompt(sync_multiplier)", 'failed prompt synchronisation ignored')
# ---- C18
m('C18', 'handler-forgets-pop', AN, "def DoForward (fsm):\n\n    count = int(fsm.memory.pop())", "def DoForward (fsm):\n\n    count = int(fsm.memory[-1])", 'DoForward leaves its parameter on the stack')
m('C18', 'cursor-home-unclamped', SC, "        self.cur_r = r\n        self.cur_c = c\n        self.cursor_constrain ()", "        self.cur_r = r\n        self.cur_c = c", 'cursor_home does not clamp')
m('C18', 'decoder-per-write', SC, "            return self.decoder.decode(s)", "            return codecs.getincrementaldecoder(self.encoding)(self.encoding_errors).decode(s)", 'a fresh decoder for every write')
m('C18', 'scroll-constrain', SC, "        if self.scroll_row_end <= 0:\n            self.scroll_row_end = 1\n", "", 'revert of the scroll region fix')
m('C18', 'mode-leaves-residue', AN, "    mode = fsm.memory.pop() # Should be 4", "    mode = fsm.memory[-1] # Should be 4", 'DoMode leaves its parameter')
m('C18', 'write-bytes-stateless', AN, "        if isinstance(s, bytes):\n            s = self._decode(s)\n        for c in s:\n            self.process(c)", "        if isinstance(s, bytes):\n            s = s.decode(self.encoding or 'latin-1', 'replace')\n        for c in s:\n            self.process(c)", 'write() decodes each piece on its own')
# ---- C19
m('C19', 'fill-region-short', SC, "            for c in range (cs, ce + 1):\n                self.put_abs (r,c,ch)", "            for c in range (cs, ce):\n                self.put_abs (r,c,ch)", 'fill_region misses the last column')
m('C19', 'insert-keeps-last', SC, "        for ci in range (self.cols, c, -1):", "        for ci in range (self.cols - 1, c, -1):", 'insert_abs does not shift the last column')
m('C19', 'get_abs-unclamped-col', SC, "    def get_abs (self, r, c):\n\n        r = constrain (r, 1, self.rows)\n        c = constrain (c, 1, self.cols)", "    def get_abs (self, r, c):\n\n        r = constrain (r, 1, self.rows)\n        c = constrain (c, 0, self.cols)", 'get_abs clamps the column to 0')
m('C19', 'erase-start-short', SC, "        self.fill_region (self.cur_r, 1, self.cur_r, self.cur_c)", "        self.fill_region (self.cur_r, 1, self.cur_r, self.cur_c - 1)", 'erase_start_of_line leaves the cursor cell')
m('C19', 'scroll-up-range', SC, "        self.w[s:e] = copy.deepcopy(self.w[s+1:e+1])", "        self.w[s:e] = copy.deepcopy(self.w[s+1:e+1])\n        if e - s >= 2:\n            self.w[s] = copy.deepcopy(self.w[s+1])", 'scroll_up duplicates a line in regions of 3+ rows')
m('C19', 'get-returns-none', SC, "        return self.get_abs (self.cur_r, self.cur_c)", "        self.get_abs (self.cur_r, self.cur_c)", 'revert of the get() fix')
m('C19', 'cursor-save-col-only', SC, "        self.cur_saved_r = self.cur_r\n        self.cur_saved_c = self.cur_c", "        self.cur_saved_c = self.cur_c", 'cursor_save does not store the row')
# ---- C20
m('C20', 'no-dotall', SB, "        compile_flags = re.DOTALL\n", "        compile_flags = 0\n", 'string patterns compiled without DOTALL')
m('C20', 'ignorecase-ignored', SB, "        if self.ignorecase:\n            compile_flags = compile_flags | re.IGNORECASE", "        if False:\n            compile_flags = compile_flags | re.IGNORECASE", 'ignorecase has no effect')
m('C20', 'coerce-drops-flags', SB, "            return re.compile(p.encode('utf-8'), r.flags & ~re.UNICODE)", "            return re.compile(p.encode('utf-8'))", 'revert of the flags fix (str -> bytes)')
m('C20', 'invalid-object-accepted', SB, "            else:\n                self._pattern_type_err(p)\n        return compiled_pattern_list", "            else:\n                compiled_pattern_list.append(re.compile(self._coerce_expect_string(str(p))))\n        return compiled_pattern_list", 'other objects are converted with str() instead of rejected')
m('C20', 'compiled-gets-ignorecase', SB, "                p = self._coerce_expect_re(p)\n                compiled_pattern_list.append(p)", "                p = self._coerce_expect_re(p)\n                if self.ignorecase:\n                    p = re.compile(p.pattern, p.flags | re.IGNORECASE)\n                compiled_pattern_list.append(p)", 'a pre-compiled pattern gets the object\'s ignorecase on top of its own flags')
m('C20', 'exact-type-error-late', SB, "            self._pattern_type_err(pattern)\n\n        try:\n            pattern_list = iter(pattern_list)", "            return self._coerce_expect_string(str(pattern))\n\n        try:\n            pattern_list = iter(pattern_list)", 'expect_exact converts invalid entries with str()')


# ---- faults aimed at the dimensions added after the coverage measurement and seeded rounds 3-5
m('C05', 'eintr-retry-negative-timeout', UT, "                    if timeout < 0:\n                        return([], [], [])\n", "",
  'select wrapper: a retry after EINTR with the time used up passes a negative timeout on')
m('C05', 'eintr-retry-negative-timeout-poll', UT, "                    if timeout < 0:\n                        return []\n", "",
  'poll wrapper: the same')
m('C06', 'dead-child-no-holder-eof', PS, "            self.flag_eof = True\n            raise EOF('End Of File (EOF). Braindead platform.')", "            raise TIMEOUT('Timeout exceeded.')",
  'child dead, terminal held open by a grandchild: TIMEOUT for ever instead of EOF')
m('C10', 'terminate-false-after-sigint-death', PS, "            self.kill(signal.SIGINT)\n            time.sleep(self.delayafterterminate)\n            if not self.isalive():\n                return True\n",
  "            self.kill(signal.SIGINT)\n            time.sleep(self.delayafterterminate)\n            if not self.isalive():\n                return False\n",
  'terminate() says False although the child died from SIGINT and was reaped')
m('C14', 'legacy-async-keyword-ignored', SB, "        if 'async' in kw:\n            async_ = kw.pop('async')\n        if kw:\n            raise TypeError(\"Unknown keyword arguments: {}\".format(kw))\n\n        exp = Expecter(self, searcher_re(pattern_list), searchwindowsize)",
  "        if 'async' in kw:\n            kw.pop('async')\n        if kw:\n            raise TypeError(\"Unknown keyword arguments: {}\".format(kw))\n\n        exp = Expecter(self, searcher_re(pattern_list), searchwindowsize)",
  'expect_list ignores the legacy spelling async=True (blocks instead of returning a coroutine)')
m('C17', 'prompt-false-becomes-true', PX, "        if i==1:\n            return False\n        return True", "        return True",
  'prompt() returns True on timeout')
m('C12', 'default-timeout-means-none', RUN, "    if timeout == -1:\n        child = spawn(command, maxread=2000, logfile=logfile, cwd=cwd, env=env,\n                        **kwargs)",
  "    if timeout == -1:\n        child = spawn(command, maxread=2000, logfile=logfile, cwd=cwd, env=env,\n                        **kwargs)\n        child.logfile_read = None\n        events = None",
  'run(timeout=-1) forgets the event table')
m('C16', 'existing-echoing-spawn-not-silenced', RW, "            self.child.setecho(False)\n            self.child.waitnoecho()\n", "            pass\n",
  'a wrapper around an existing spawn leaves echo on: every result contains the command')

m('C15', 'last-words-not-drained', PS, "        else:\n            # The child has exited. What it wrote before it went may still\n            # be waiting in the pty: hand that on before returning.\n            while True:\n", "        else:\n            while False:\n",
  'revert of the interact() last-words fix')


# ---- after seeded round 8: the mechanisms the volunteers found, kept as mutants of their own
m('C06', 'async-late-data-through-stale-expecter', AS, "        if self.fut.done():\n            spawn._before.write(s)\n            spawn._buffer.write(s)\n            return\n", "",
  'asyncio path: text arriving after an abandoned await goes through that await\'s searcher')
m('C09', 'signalstatus-via-signals-enum', PS, "            self.signalstatus = ptyproc.signalstatus\n            self.terminated = True\n",
  "            try:\n                self.signalstatus = signal.Signals(ptyproc.signalstatus)\n            except (ValueError, TypeError):\n                self.signalstatus = None\n            self.terminated = True\n",
  'signalstatus looked up in signal.Signals: unnamed realtime signals become None')
m('C10', 'kill-without-liveness-check', PS, "        if self.isalive():\n            os.kill(self.pid, sig)\n", "        try:\n            os.kill(self.pid, sig)\n        except ProcessLookupError:\n            pass\n",
  'kill() signals the pid number without asking isalive(): also after the child has been reaped')
m('C11', 'socket-send-logged-after-sendall', SO, "        self._log(s, \"send\")\n\n        b = self._encoder.encode(s, final=False)\n        self.socket.sendall(b)\n",
  "        b = self._encoder.encode(s, final=False)\n        self.socket.sendall(b)\n        self._log(s, \"send\")\n", 'SocketSpawn.send logs after the transmission: a refused send is not logged')
m('C12', 'later-patterns-searched-to-end-of-best-match', E, "            match = s.search(buffer, searchstart)\n",
  "            match = s.search(buffer, searchstart) if first_match is None else s.search(buffer, searchstart, the_match.end())\n",
  'regex searcher: later patterns are searched only up to the end of the best match so far')
m('C15', 'keyboard-served-only-when-child-quiet', PS, "            if self.STDIN_FILENO in r:\n", "            elif self.STDIN_FILENO in r:\n",
  'interact(): the keyboard is read only in rounds in which the child has nothing waiting')
m('C16', 'async-decoder-final-per-chunk', AS, "        s = spawn._decoder.decode(data)\n", "        s = spawn._decoder.decode(data, final=True)\n",
  'asyncio path: decoder flushed on every chunk (awaited run_command loses chunks of non-ASCII output)')
m('C20', 'exact-falsy-means-no-patterns', SB, "        if (isinstance(pattern_list, (bytes, text_type)) or\n                pattern_list in (TIMEOUT, EOF)):\n",
  "        if not pattern_list:\n            pattern_list = []\n        elif (isinstance(pattern_list, (bytes, text_type)) or\n                pattern_list in (TIMEOUT, EOF)):\n",
  'expect_exact: anything false in a boolean context means "no patterns"')
m('C20', 'exact-empty-wrong-type-waits', SB, "        if (isinstance(pattern_list, (bytes, text_type)) or\n                pattern_list in (TIMEOUT, EOF)):\n",
  "        if (isinstance(pattern_list, self.allowed_string_types) or\n                pattern_list in (TIMEOUT, EOF)):\n", 'revert of the expect_exact(b\'\') fix')

def main():
    os.makedirs(OUT, exist_ok=True)
    for f in os.listdir(OUT):
        if f.endswith('.patch'):
            os.unlink(os.path.join(OUT, f))
    bad = 0
    index = []
    for prop, name, path, old, new, why, count in M:
        src = open(os.path.join(REPO, path)).read()
        if src.count(old) < 1:
            print('NOT APPLICABLE %s-%s: pattern not found in %s' % (prop, name, path))
            bad += 1
            continue
        if src.count(old) > 1 and count == 1:
            # replace the first occurrence only
            pass
        dst = src.replace(old, new, 1)
        diff = ''.join(difflib.unified_diff(src.splitlines(True), dst.splitlines(True), 'a/' + path, 'b/' + path))
        fn = '%s-%s.patch' % (prop, name)
        with open(os.path.join(OUT, fn), 'w') as f:
            f.write(diff)
        index.append((prop, name, why))
    with open(os.path.join(OUT, 'INDEX.tsv'), 'w') as f:
        for prop, name, why in index:
            f.write('%s\t%s\t%s\n' % (prop, name, why))
    print('%d mutants written, %d not applicable' % (len(index), bad))
    return 1 if bad else 0


if __name__ == '__main__':
    sys.exit(main())
