#!/usr/bin/env python3
"""Prints markdown tables for DESIGN.md section 14 from mutants/AUDIT.tsv and seeded/*/result.json."""
import collections, glob, json, os
V = os.path.dirname(os.path.dirname(os.path.abspath(__file__)))
rows = [l.rstrip('\n').split('\t') for l in open(os.path.join(V, 'mutants', 'AUDIT.tsv'))]
why = {}
for l in open(os.path.join(V, 'mutants', 'INDEX.tsv')):
    p, n, w = l.rstrip('\n').split('\t')
    why[p + '-' + n] = w
per = collections.OrderedDict()
for name, verdict, dt, info in rows:
    per.setdefault(name.split('-')[0], []).append((name, verdict, info))
print('| property | mutants | caught | what was changed -> deciding oracle clause(s) |')
print('|---|---|---|---|')
for p, lst in per.items():
    c = sum(1 for x in lst if x[1] == 'CAUGHT')
    items = '; '.join('%s -> %s' % (why.get(n, n), (i.split(',')[0] if v == 'CAUGHT' else '**' + v + '**')) for n, v, i in lst)
    print('| %s | %d | %d | %s |' % (p, len(lst), c, items))
print()
print('| seeded change | property | what it does / what it needs | caught by (mechanisms) |')
print('|---|---|---|---|')
for f in sorted(glob.glob(os.path.join(V, 'seeded', '*', 'result.json'))):
    r = json.load(open(f))
    m = json.load(open(os.path.join(os.path.dirname(f), 'meta.json')))
    own = r['checks'].get(r['property'], {})
    others = [c for c, x in r['checks'].items() if c != r['property'] and x['verdict'] == 'CAUGHT']
    print('| %s | %s | %s **Needs:** %s | %s: %s (%s)%s |' % (
        r['id'], r['property'], m['summary'][:260], m['needs'][:260], r['property'], own.get('verdict'),
        ', '.join(own.get('mechanisms', [])[:4]), ('; also ' + ', '.join(others)) if others else ''))
