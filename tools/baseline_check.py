#!/usr/bin/env python3
"""Run the repository's own suite (hooks/guard off - there are none) and compare
with the stable_pass list of /root/.vp/BASELINE.json."""
import json, os, subprocess, sys, tempfile, xml.etree.ElementTree as ET
b = json.load(open('/root/.vp/BASELINE.json'))
out = tempfile.mktemp(suffix='.xml', prefix='pvmon-junit-')
env = dict(os.environ); env.pop('PEXPECT_VERIF', None)
cmd = b['cmd'].replace('<file>', out)
p = subprocess.run(cmd, shell=True, env=env, stdout=subprocess.PIPE, stderr=subprocess.STDOUT)
passed = set()
for tc in ET.parse(out).getroot().iter('testcase'):
    if not any(ch.tag in ('failure', 'error', 'skipped') for ch in tc):
        passed.add('%s::%s' % (tc.get('classname'), tc.get('name')))
os.unlink(out)
missing = [t for t in b['stable_pass'] if t not in passed]
print('passed %d, stable_pass %d, missing %d' % (len(passed), len(b['stable_pass']), len(missing)))
for t in missing: print('  MISSING', t)
if missing: print(p.stdout.decode('utf-8','replace')[-3000:])
sys.exit(1 if missing else 0)
