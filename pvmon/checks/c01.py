"""C01 stream conservation: ledger monitor over scripted histories."""
from . import _expect_common as X
from . import _real_ledger as RL
from ..core.runner import split_range
from ..monitors.expect_oracles import Ledger

ID = 'C01'
LEVEL = 'exploration'
RULE = ('cases = random scripted histories (stream over {a,b,CR,LF,e-acute} x read splitting x 1..8 calls '
        'mixing expect/expect_exact/expect_list/expect_loop/read/readline/readlines/iteration/buffer '
        'assignment, TIMEOUT events, windows) + exact-string straddle histories + all streams<=L over '
        '{a,b,LF} x all splittings; the ledger (handed back + pending == received) is evaluated after every '
        'engine-level call. non-trivial = history with >=2 ledger-relevant calls of which one consumed >=2 '
        'data reads or followed a TIMEOUT/buffer assignment; distinct by whole case. Companion on the real transports '
        '(pty, piped subprocess, descriptor, socket): numbered lines written in 1-3 pieces by a peer that ends before / '
        'while / after the consumer reads, consumed by a random mix of expect_exact / expect / readline / read(n) / '
        'expect(EOF) with maxread 1..2000: everything handed back, concatenated, must be the stream')
ASSUMPTIONS = ['the scripted transport replaces only read_nonblocking; SpawnBase/Expecter/searchers run unmodified',
               'virtual clock replaces pexpect.expect.time']
REQUIRED = ['ledger_calls', 'ledger_match', 'ledger_timeout', 'ledger_eof', 'real_ledger_evaluations']


def plan(tier, seed):
    specs = X.plan(tier, seed)
    n, k = (160, 8) if tier == 'quick' else (4000, 16)
    for i, (a, b) in enumerate(split_range(n, k)):
        specs.append({'gen': 'real-ledger', 'n': b - a, 'shard': 400 + i, 'seed': seed, 'tier': tier})
    n, k = (160, 4) if tier == 'quick' else (4000, 16)
    for i, (a, b) in enumerate(split_range(n, k)):
        # the asyncio read path against the naive model (before + after + pending is the text received there too)
        specs.append({'gen': 'async-model', 'n': b - a, 'shard': 450 + i, 'seed': seed, 'tier': tier})
    return specs


def run_shard(spec, acc):
    spec = dict(spec, prop=ID)
    if spec.get('gen') == 'real-ledger' or (isinstance(spec.get('replay'), dict) and spec['replay'].get('real')):
        return RL.run(spec, acc)
    if spec.get('gen') == 'async-model' or (isinstance(spec.get('replay'), dict) and 'calls' in spec['replay']):
        from . import _async_model as AM
        return AM.run(spec, acc)
    def make(run, acc):
        led = Ledger(run, acc)
        run.ledger = led
        return led.feed

    def end(run, case, acc, bad):
        n = sum(1 for c in run.engine_calls if c.kind in ('match', 'timeout', 'eof'))
        multi = any(sum(1 for e in c.read_log if e[0] == 'd') >= 2 for c in run.engine_calls)
        seq = [c.kind for c in run.engine_calls]
        after_t = any(a == 'timeout' for a in seq[:-1]) or any(o['op'] == 'setbuf' for o in case['ops'][:-1])
        if n >= 2 and (multi or after_t):
            acc.nontrivial('c01', case)
    X.drive(spec, acc, make, end)
