"""C08 send fidelity: the peer receives exactly what was sent, once, in order."""
import codecs
import os
import termios

from pexpect import TIMEOUT as pexpect_TIMEOUT, EOF as pexpect_EOF

from ..core.runner import split_range
from ..workloads.gen_expect import rng_for
from ..workloads.puppetctl import PeerError
from ..workloads.transports import Link
from ..core.watchdog import watchdog, CaseTimeout
from ..core.acc import second_attempt

ID = 'C08'
LEVEL = 'exploration'
RULE = ('random sequences of 1..12 send-family calls (send, sendline, write, writelines, sendcontrol, sendeof, sendintr) with '
        'payloads over all 256 byte values, non-ASCII text, empty strings and 64..256 KB blocks, in bytes mode (bytes and '
        'str arguments) and unicode mode (utf-8, latin-1, utf-16), on the pty (raw-mode reporter child), fd, socket '
        '(in-process peer) and popen (reporter on a pipe) transports; expected byte stream computed by an independent '
        'incremental encoder, one linesep per sendline, control bytes from the documented table / the tty\'s VEOF, VINTR; '
        'must equal exactly the bytes the peer read; return values = bytes written by that call. fd transport on a non-blocking descriptor with a peer that does not read: the return value must be the number of bytes the kernel accepted (FIONREAD), the peer finds exactly those prefixes. non-trivial = sequence '
        'with >=2 calls of >=2 kinds or a payload >= 64 KB; distinct by whole case')
ASSUMPTIONS = ['the pty peer puts its terminal in raw mode so the line discipline cannot alter or echo bytes',
               'control-character table: a-z in either case, @ [ \\ ] ^ _ ? and the alternative spellings ` { | } ~ that are accepted as well']
REQUIRED = ['sequences', 'calls', 'bytes_compared', 'return_values_checked', 'transport_pty', 'transport_fd',
            'transport_socket', 'transport_popen', 'control_chars_sent', 'large_payloads', 'short_writes_observed']

CTRL = {'@': 0, '`': 0, '[': 27, '{': 27, '\\': 28, '|': 28, ']': 29, '}': 29, '^': 30, '~': 30, '_': 31, '?': 127}
for i, ch in enumerate('abcdefghijklmnopqrstuvwxyz'):
    CTRL[ch] = i + 1
TEXT = ['a', 'Z', ' ', '\n', '\r', '\t', '\xe9', 'ß', '€', '日', '😀', '\x00', '\x7f', '\x1b', 'é']


def _encodable(s, enc):
    try:
        s.encode(enc)
        return True
    except UnicodeEncodeError:
        return False


def gen_case(rng, transport, big_ok):
    # spawn() encodes the command line with the instance encoding, so the pty
    # transport can only use ASCII-compatible BOM-less codecs
    enc = rng.choice([None, None, 'utf-8', 'latin-1', 'utf-16' if transport != 'pty' else 'cp1252'])
    if transport == 'pty' and rng.random() < 0.25:
        # ASCII-compatible all the same, but stateful (a pending return-to-ASCII escape after non-ASCII text) or with
        # an encoded form of its own for control characters: a control character is one raw byte whatever the encoding
        enc = rng.choice(['iso2022_jp', 'utf-7', 'shift_jis', 'hz'])
    calls = []
    for _ in range(rng.randint(1, 12)):
        r = rng.random()
        if transport == 'pty' and r < 0.18:
            if r < 0.12:
                calls.append(['sendcontrol', rng.choice(list(CTRL)) if rng.random() < 0.9 else rng.choice(list(CTRL)).upper()])
            elif r < 0.15:
                calls.append(['sendeof'])
            else:
                calls.append(['sendintr'])
            continue
        kind = rng.choice(['send', 'send', 'sendline', 'write', 'writelines'])
        def payload():
            x = rng.random()
            if enc is None:
                if x < 0.5:
                    return bytes(rng.randrange(256) for _ in range(rng.randint(0, 40)))
                if x < 0.6:
                    return bytes(range(256))
                if x < 0.65 and big_ok:
                    n = rng.choice([65536, 100000, 262144, 1 << 20])
                    return bytes((i * 7 + n) & 0xff for i in range(n))
                return ''.join(rng.choice(TEXT) for _ in range(rng.randint(0, 20)))   # str in bytes mode -> UTF-8
            chars = [c for c in TEXT if _encodable(c, enc)]
            if x < 0.06 and big_ok:
                return ''.join(rng.choice(chars) for _ in range(40)) * rng.choice([1700, 3000])
            return ''.join(rng.choice(chars) for _ in range(rng.randint(0, 30)))
        if kind == 'writelines':
            calls.append([kind, [payload() for _ in range(rng.randint(0, 3))]])
        elif kind == 'sendline' and transport in ('pty', 'popen') and rng.random() < 0.2:
            calls.append([kind])
        else:
            calls.append([kind, payload()])
    return {'transport': transport, 'enc': enc, 'calls': calls,
            'delay': rng.random() < 0.05,
            # a socket obtained with a timeout (socket.create_connection(addr, timeout=...)) is in timeout mode,
            # where a single send() may be short
            'sock_timeout': transport == 'socket' and rng.random() < 0.5}


class Expect(object):
    """Independent computation of the bytes the peer must receive."""

    def __init__(self, enc):
        self.enc = enc
        self.encoder = codecs.getincrementalencoder(enc)() if enc else None
        self.linesep = os.linesep

    def enc_arg(self, s):
        if self.enc is None:
            return s if isinstance(s, bytes) else s.encode('utf-8')
        return self.encoder.encode(s)

    def line(self, s):
        if self.enc is None:
            b = s if isinstance(s, bytes) else s.encode('utf-8')
            return b + self.linesep.encode('ascii')
        return self.encoder.encode(s + self.linesep)


def one(case, acc):
    acc.case()
    acc.count('sequences')
    tr = case['transport']
    acc.count('transport_' + tr)
    enc = case['enc']
    kw = {'encoding': enc, 'timeout': 20}
    first = first_r = None
    if enc:
        # an earlier object with the same encoding that has sent something already (and is still alive): what it did
        # to ITS encoder (byte order mark written, shift state) is none of the next object's business
        from pexpect import fdpexpect as _fdp
        first_r, fw = os.pipe()
        first = _fdp.fdspawn(fw, encoding=enc)
        first.send('x\xe9' if _encodable('\xe9', enc) else 'x')
        acc.count('earlier_object_same_encoding')
    L = Link(tr, **kw)
    try:
        c = L.child
        if case.get('sock_timeout'):
            L.sock.settimeout(30)
            acc.count('socket_in_timeout_mode')
        if tr == 'pty':
            c.delaybeforesend = 0.05 if case['delay'] else None
            cc = termios.tcgetattr(c.child_fd)[6]
            veof, vintr = cc[termios.VEOF], cc[termios.VINTR]
        ex = Expect(enc)
        want = b''
        kinds = set()
        big = False
        for k, call in enumerate(case['calls']):
            name = call[0]
            kinds.add(name)
            acc.count('calls')
            part = b''
            if (k + len(case['calls'])) % 3 == 0:
                # reads that find nothing and time out (at once, or after 10 ms) between the sends: whatever a read
                # does to the transport for the length of its wait must be undone when it ends in TIMEOUT
                acc.count('timed_out_reads_between_sends')
                try:
                    c.expect_exact([b'\x00never' if enc is None else '\x00never'], timeout=[0, 0.01][k % 2])
                except (pexpect_TIMEOUT, pexpect_EOF):
                    pass
            try:
                if name == 'send':
                    part = ex.enc_arg(call[1])
                    ret = c.send(call[1])
                    exp_ret = len(part)
                elif name == 'write':
                    part = ex.enc_arg(call[1])
                    ret = c.write(call[1])
                    exp_ret = None
                elif name == 'sendline':
                    if len(call) == 1:
                        part = ex.line('' if enc else b'')
                        ret = c.sendline()
                    else:
                        part = ex.line(call[1])
                        ret = c.sendline(call[1])
                    exp_ret = len(part)
                elif name == 'writelines':
                    for s in call[1]:
                        part += ex.enc_arg(s)
                    # "any iterable object producing strings": a list, a tuple, a one-shot generator or iterator
                    form = (k + len(call[1])) % 4
                    arg = call[1] if form == 0 else tuple(call[1]) if form == 1 else \
                        (x for x in call[1]) if form == 2 else iter(list(call[1]))
                    acc.count('writelines_' + ['list', 'tuple', 'generator', 'iterator'][form])
                    ret = c.writelines(arg)
                    exp_ret = None
                elif name == 'sendcontrol':
                    part = bytes([CTRL[call[1].lower()]])
                    ret = c.sendcontrol(call[1])
                    exp_ret = 1
                    acc.count('control_chars_sent')
                    acc.seen('list:control_names', call[1])
                elif name == 'sendeof':
                    part = veof if isinstance(veof, bytes) else bytes([veof])
                    ret = c.sendeof()
                    exp_ret = 'any'
                    acc.count('control_chars_sent')
                elif name == 'sendintr':
                    part = vintr if isinstance(vintr, bytes) else bytes([vintr])
                    ret = c.sendintr()
                    exp_ret = 'any'
                    acc.count('control_chars_sent')
            except Exception as e:
                acc.violation('send-raises:%s:%s' % (name, type(e).__name__),
                              '%s/%s call #%d %s(%s) raised %r' % (tr, enc or 'bytes', k, name, short(call[1:]), e), case)
                return
            want += part
            if len(part) >= 65536:
                big = True
                acc.count('large_payloads')
            if exp_ret != 'any':
                acc.count('return_values_checked')
                if ret != exp_ret:
                    acc.violation('wrong-return-value:' + name,
                                  '%s/%s call #%d %s(%s) returned %r, wrote %d bytes' % (
                                      tr, enc or 'bytes', k, name, short(call[1:]), ret, len(part)), case)
                    return
        got = L.peer_received(len(want))
        acc.count('bytes_compared', len(want))
        if got != want:
            i = next((j for j in range(min(len(got), len(want))) if got[j] != want[j]), min(len(got), len(want)))
            if len(got) < len(want) and want.startswith(got):
                mech = 'peer-received-less'
            elif len(got) > len(want) and got.startswith(want):
                mech = 'peer-received-more'
            else:
                mech = 'peer-received-different-bytes'
            acc.violation(mech + ':' + tr, '%s/%s: peer received %d bytes, expected %d; first difference at %d: got %r expected %r; calls %s' % (
                tr, enc or 'bytes', len(got), len(want), i, got[i:i + 12], want[i:i + 12],
                short([c0[0] for c0 in case['calls']], 200)), case)
            return
        if (len(case['calls']) >= 2 and len(kinds) >= 2) or big:
            acc.nontrivial('c08', case if not big else [case['transport'], case['enc'], len(want), sorted(kinds)])
        if acc.evaluations <= 2:
            acc.sample({'transport': tr, 'enc': enc, 'calls': short(case['calls'], 400)})
    finally:
        L.cleanup()
        if first is not None:
            for fd in (first.child_fd, first_r):
                try:
                    os.close(fd)
                except OSError:
                    pass


def unread(fd):
    import array
    import fcntl
    buf = array.array('i', [0])
    fcntl.ioctl(fd, termios.FIONREAD, buf)
    return buf[0]


def gen_short_write(rng):
    enc = rng.choice([None, 'utf-8'])
    calls = []
    for _ in range(rng.randint(2, 6)):
        n = rng.choice([0, 1, 100, 4096, 30000, 60000, 70000, 200000])
        if enc:
            s = ''.join(rng.choice('ab\xe9\u20ac') for _ in range(min(n, 64))) * max(1, n // 64) if n else ''
        else:
            s = bytes(rng.randrange(256) for _ in range(min(n, 251))) * max(1, n // 251) if n else b''
        calls.append([rng.choice(['send', 'send', 'sendline']), s])
    return {'transport': 'fd-nonblocking', 'enc': enc, 'calls': calls, 'drain_after': rng.choice([None, 1, 2])}


def short_write_case(case, acc):
    """fd transport on a non-blocking descriptor whose peer is not reading: the kernel accepts only part of a payload.
    What send() returns must be the number of bytes that really went into the pipe (FIONREAD on the other end), and
    the peer must find exactly those prefixes, in order."""
    import fcntl
    from pexpect import fdpexpect
    acc.case()
    acc.count('sequences')
    acc.count('transport_fd_nonblocking')
    enc = case['enc']
    r, w = os.pipe()
    try:
        fcntl.fcntl(w, fcntl.F_SETFL, fcntl.fcntl(w, fcntl.F_GETFL) | os.O_NONBLOCK)
        c = fdpexpect.fdspawn(w, encoding=enc, timeout=5)
        ex = Expect(enc)
        want = b''
        got = b''
        for k, call in enumerate(case['calls']):
            name = call[0]
            acc.count('calls')
            part = ex.enc_arg(call[1]) if name == 'send' else ex.line(call[1])
            before = unread(r)
            ret = None
            try:
                ret = c.send(call[1]) if name == 'send' else c.sendline(call[1])
            except BlockingIOError:
                acc.count('would_block_reported')
            except Exception as e:
                acc.violation('send-raises:%s:%s' % (name, type(e).__name__), 'fd-nonblocking/%s call #%d %s(%d bytes) raised %r' % (
                    enc or 'bytes', k, name, len(part), e), case)
                return
            wrote = unread(r) - before
            want += part[:wrote]
            if wrote < len(part):
                acc.count('short_writes_observed')
            acc.count('return_values_checked')
            if ret is not None and ret != wrote:
                acc.violation('wrong-return-value:' + name, 'fd-nonblocking/%s call #%d %s(%d bytes) returned %r, the pipe took %d bytes' % (
                    enc or 'bytes', k, name, len(part), ret, wrote), case)
                return
            if ret is None and wrote:
                acc.violation('wrote-and-raised:' + name, 'call #%d raised BlockingIOError after %d bytes had been written' % (k, wrote), case)
                return
            if case.get('drain_after') == k:
                n = unread(r)
                while n > 0:
                    d = os.read(r, n)
                    got += d
                    n -= len(d)
        n = unread(r)
        while n > 0:
            d = os.read(r, n)
            got += d
            n -= len(d)
        acc.count('bytes_compared', len(want))
        if got != want:
            acc.violation('peer-received-different-bytes:fd-nonblocking', 'peer found %d bytes, expected %d (prefixes accepted by the kernel)' % (
                len(got), len(want)), case)
            return
        acc.nontrivial('c08', ['fd-nonblocking', enc, [(c0[0], len(c0[1])) for c0 in case['calls']], case.get('drain_after')])
    finally:
        os.close(r)
        try:
            os.close(w)
        except OSError:
            pass


def short(x, n=80):
    r = repr(x)
    return r if len(r) <= n else r[:n] + '...'


def plan(tier, seed):
    n = 1600 if tier == 'quick' else 30000
    return [{'n': b - a, 'shard': i, 'seed': seed} for i, (a, b) in enumerate(split_range(n, 16))]


def run_shard(spec, acc):
    if 'replay' in spec:
        try:
            if spec['replay'].get('transport') == 'fd-nonblocking':
                return short_write_case(spec['replay'], acc)
            return one(spec['replay'], acc)
        except PeerError as e:
            acc.inconc('peer: %s' % e)
            return
    rng = rng_for(spec['seed'], spec['shard'], 8)
    for i in range(spec['n']):
        if acc.too_many():
            break
        tr = ['pty', 'fd', 'socket', 'popen'][i % 4]
        case = gen_case(rng, tr, big_ok=(i % 3 == 0))
        try:
            with watchdog(60):
                if i % 8 == 5:
                    short_write_case(gen_short_write(rng), acc)
                one(case, acc)
        except PeerError as e:
            acc.inconc('peer: %s' % e)
        except CaseTimeout as e:
            try:
                second_attempt(acc, case, lambda: one(case, acc), 60, 'send sequence on %s/%s (calls %s) did not finish within 60 s' % (
                    case['transport'], case['enc'], short([c0[0] for c0 in case['calls']], 120)))
            except PeerError as e2:
                acc.inconc('peer: %s' % e2)
