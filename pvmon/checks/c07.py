"""C07 unicode mode decodes the stream as a whole, however reads split it."""
import asyncio
import codecs
import io
import itertools
import os
import socket
import time

import pexpect
from pexpect import EOF, TIMEOUT, fdpexpect, socket_pexpect
from pexpect.expect import Expecter, searcher_string

from ..core.runner import split_range
from ..workloads.gen_expect import rng_for
from ..workloads.transports import Link
from ..workloads.puppetctl import PeerError

ID = 'C07'
LEVEL = 'exploration'
RULE = ('byte streams = encodings of texts mixing 1/2/3/4-byte characters, BOMs and combining marks (for replace/ignore '
        'also invalid sequences, only for codecs whose incremental decoder is defined to agree with one-shot decoding) x '
        'split points: EVERY byte offset, up to 3 cuts, for streams <= 12 bytes (enumerated), random cuts beyond x '
        'encodings x codec_errors x transports {fd/pipe, socket, asyncio data_received, asyncio event loop, one object read alternately through the event loop and the blocking path, pty child, '
        'popen child}. The text delivered (concatenated read_nonblocking results, before after the final TIMEOUT/EOF, '
        'logfile_read) must equal bytes.decode(encoding, errors) of the whole stream; bytes mode must pass bytes through. '
        'non-trivial = some cut falls inside a multi-byte character (or inside an invalid sequence); distinct by '
        '(stream, cuts, encoding, errors, transport)')
ASSUMPTIONS = ['one-shot bytes.decode of the standard library is the definition of "decoding of the whole stream"',
               'garbage bytes are injected only for utf-8, utf-8-sig, utf-16-le, latin-1, cp1252, shift_jis, euc_jp, gb18030 '
               '(the BOM-sniffing utf-16/utf-32 incremental decoders legitimately differ from one-shot decoding on garbage)',
               'the stream never ends inside a character']
REQUIRED = ['splittings', 'cuts_inside_character', 'transport_fd', 'transport_fd_assign', 'transport_fd_pair', 'transport_socket', 'transport_async_direct',
            'transport_async_loop', 'transport_mixed_loop', 'transport_pty', 'transport_popen', 'log_compared', 'bytes_mode_cases', 'interact_sessions_with_cut_characters']

CODECS = ['utf-8', 'utf-16', 'utf-16-le', 'utf-32', 'latin-1', 'cp1252', 'shift_jis', 'euc_jp', 'gb18030', 'utf-8-sig',
          'utf-16-be', 'utf-32-be', 'big5']
GARBAGE_OK = {'utf-8', 'utf-8-sig', 'utf-16-le', 'latin-1', 'cp1252', 'shift_jis', 'euc_jp', 'gb18030'}
CHARS = ['a', 'Z', '\n', '\xe9', 'ß', '€', '日', '本', '𝄞', '😀', 'é', '﻿', 'ｱ', ' ']


def encodable(s, enc):
    try:
        s.encode(enc)
        return True
    except UnicodeEncodeError:
        return False


def gen_stream(rng, enc, errors, maxchars):
    n = rng.randint(1, maxchars)
    chars = [c for c in CHARS if encodable(c, enc)]
    text = ''.join(rng.choice(chars) for _ in range(n))
    data = text.encode(enc)
    if errors != 'strict' and enc in GARBAGE_OK and rng.random() < 0.5:
        # inject garbage, always followed by a complete ASCII tail
        pos = rng.randint(0, len(data))
        if enc == 'utf-16-le':
            pos -= pos % 2
            junk = rng.choice([b'\x00\xd8', b'\x00\xdc', b'\x00\xd8\x41\x00'])
            tail = 'ok'.encode(enc)
        else:
            junk = rng.choice([b'\xff', b'\xc3', b'\xe2\x82', b'\xf0\x9f\x98', b'\x80', b'\xfe\xff', b'\xed\xa0\x80',
                               b'\x81', b'\xc3\xc3'])
            tail = b'ok'
        data = data[:pos] + junk + data[pos:] + tail
    try:
        whole = data.decode(enc, errors)
    except UnicodeDecodeError:
        return None
    # the stream must not end inside a character
    dec = codecs.getincrementaldecoder(enc)(errors)
    try:
        inc = dec.decode(data, final=False)
    except UnicodeDecodeError:
        return None
    if inc != whole:
        return None
    return data, whole


def char_starts(data, enc, errors):
    """byte offsets at which the incremental decoder has no pending input"""
    dec = codecs.getincrementaldecoder(enc)(errors)
    ok = {0}
    for i in range(len(data)):
        try:
            dec.decode(data[i:i + 1], final=False)
        except UnicodeDecodeError:
            return ok
        st = dec.getstate()
        if not st[0]:
            ok.add(i + 1)
    return ok


def split_at(data, cuts):
    out, a = [], 0
    for c in cuts:
        out.append(data[a:c])
        a = c
    out.append(data[a:])
    return out


class Log(object):
    def __init__(self, kind):
        self.parts = []
        self.kind = kind

    def write(self, s):
        self.parts.append(s)

    def flush(self):
        pass

    def value(self):
        return (self.kind()).join(self.parts)


# ---------------------------------------------------------------- transports

def run_fd_assign(pieces, enc, errors, use_expect):
    """like run_fd, but between the reads the caller assigns to the public `buffer` attribute (puts the pending text
    back as it is): what the decoder holds of an unfinished character is not part of that text and must survive"""
    return run_fd(pieces, enc, errors, use_expect, assign=True)


def run_fd(pieces, enc, errors, use_expect, assign=False):
    r, w = os.pipe()
    try:
        c = fdpexpect.fdspawn(r, encoding=enc, codec_errors=errors, timeout=5)
        log = Log(str if enc else bytes)
        c.logfile_read = log
        got = c.string_type()
        for pc in pieces:
            if not pc:
                continue
            os.write(w, pc)
            if use_expect:
                try:
                    c.expect_exact(['\x00\x00NEVER'] if enc else [b'\x00\x00NEVER'], timeout=0)
                except TIMEOUT:
                    pass
                if assign:
                    c.buffer = c.before         # (after a TIMEOUT `before` is all the pending text)
            else:
                got = got + c.read_nonblocking(1 << 16, 1)
                if assign:
                    c.buffer = c.buffer
        os.close(w)
        w = None
        try:
            c.expect(EOF, timeout=5)
        except UnicodeDecodeError:
            raise
        if use_expect:
            got = c.before
        else:
            got = got + c.before
        return got, log.value()
    finally:
        if w is not None:
            os.close(w)
        os.close(r)


def run_socket(pieces, enc, errors, use_expect):
    a, b = socket.socketpair()
    try:
        c = socket_pexpect.SocketSpawn(a, encoding=enc, codec_errors=errors, timeout=5)
        log = Log(str if enc else bytes)
        c.logfile_read = log
        got = c.string_type()
        for pc in pieces:
            if not pc:
                continue
            b.sendall(pc)
            if use_expect:
                try:
                    c.expect_exact(['\x00\x00NEVER'] if enc else [b'\x00\x00NEVER'], timeout=0)
                except TIMEOUT:
                    pass
            else:
                got = got + c.read_nonblocking(1 << 16, 1)
        b.shutdown(socket.SHUT_WR)
        c.expect(EOF, timeout=5)
        got = c.before if use_expect else got + c.before
        return got, log.value()
    finally:
        a.close()
        b.close()


class FakeTransport(object):
    def pause_reading(self):
        pass

    def resume_reading(self):
        pass


def run_async_direct(pieces, enc, errors, use_expect):
    """PatternWaiter.data_received fed piece by piece (the asyncio protocol
    callback), no event loop needed."""
    from pexpect._async import PatternWaiter
    r, w = os.pipe()
    loop = asyncio.new_event_loop()
    try:
        asyncio.set_event_loop(loop)
        c = fdpexpect.fdspawn(r, encoding=enc, codec_errors=errors, timeout=5)
        log = Log(str if enc else bytes)
        c.logfile_read = log
        pw = PatternWaiter()

        async def go():
            # the order in which pexpect and the event loop set a protocol up
            pw.set_expecter(Expecter(c, searcher_string(['\x00\x00NEVER'] if enc else [b'\x00\x00NEVER']), -1))
            pw.connection_made(FakeTransport())
            for pc in pieces:
                if pc:
                    pw.data_received(pc)
            pw.eof_received()
            try:
                await pw.fut
            except EOF:
                pass
        loop.run_until_complete(go())
        return c.before, log.value()
    finally:
        asyncio.set_event_loop(None)
        loop.close()
        os.close(r)
        os.close(w)


def run_async_loop(pieces, enc, errors, use_expect):
    r, w = os.pipe()
    loop = asyncio.new_event_loop()
    state = {'w': w}
    try:
        asyncio.set_event_loop(loop)
        c = fdpexpect.fdspawn(r, encoding=enc, codec_errors=errors, timeout=5)
        log = Log(str if enc else bytes)
        c.logfile_read = log
        never = ['\x00\x00NEVER'] if enc else [b'\x00\x00NEVER']

        async def go():
            for pc in pieces:
                if not pc:
                    continue
                os.write(w, pc)
                try:
                    await c.expect_exact(never, async_=True, timeout=0.02)
                except TIMEOUT:
                    pass
            os.close(w)
            state['w'] = None
            try:
                await c.expect_exact(never, async_=True, timeout=5)
            except EOF:
                pass
        loop.run_until_complete(go())
        return c.before, log.value()
    finally:
        try:
            if c.async_pw_transport:
                c.async_pw_transport[1].close()
        except Exception:
            pass
        loop.run_until_complete(asyncio.sleep(0))
        asyncio.set_event_loop(None)
        loop.close()
        if state['w'] is not None:
            os.close(w)
        try:
            os.close(r)
        except OSError:
            pass


def run_mixed_loop(pieces, enc, errors, use_expect):
    """one object read alternately through the asyncio protocol and through the blocking path: the hand-over
    may fall inside a character"""
    r, w = os.pipe()
    loop = asyncio.new_event_loop()
    state = {'w': w}
    c = None
    try:
        asyncio.set_event_loop(loop)
        c = fdpexpect.fdspawn(r, encoding=enc, codec_errors=errors, timeout=5)
        log = Log(str if enc else bytes)
        c.logfile_read = log
        never = ['\x00\x00NEVER'] if enc else [b'\x00\x00NEVER']
        first_async = bool(use_expect)
        k = 0
        for pc in pieces:
            if not pc:
                continue
            os.write(w, pc)
            try:
                if (k % 2 == 0) == first_async:
                    loop.run_until_complete(c.expect_exact(never, async_=True, timeout=0.02))
                else:
                    c.expect_exact(never, timeout=0)
            except TIMEOUT:
                pass
            k += 1
        os.close(w)
        state['w'] = None
        try:
            if (k % 2 == 0) == first_async:
                loop.run_until_complete(c.expect_exact(never, async_=True, timeout=5))
            else:
                c.expect_exact(never, timeout=5)
        except EOF:
            pass
        return c.before, log.value()
    finally:
        try:
            if c is not None and c.async_pw_transport:
                c.async_pw_transport[1].close()
        except Exception:
            pass
        loop.run_until_complete(asyncio.sleep(0))
        asyncio.set_event_loop(None)
        loop.close()
        if state['w'] is not None:
            os.close(w)
        try:
            os.close(r)
        except OSError:
            pass


class OtherObjectSpoiled(Exception):
    pass


def run_fd_pair(pieces, enc, errors, use_expect):
    """two live objects with the same encoding and error policy, read alternately; a third one is created while
    both may be in the middle of a character: no object's decoding state is any other object's business"""
    ra, wa = os.pipe()
    rb, wb = os.pipe()
    rc = wc = None
    other_text = 'B\xe9\u20ac\u65e5!'
    if enc is None:
        other = b'B\xe9\xff\x00!'
    else:
        try:
            other = other_text.encode(enc)
        except (UnicodeEncodeError, LookupError):
            other_text = 'Bplain!'
            other = other_text.encode(enc)
    try:
        a = fdpexpect.fdspawn(ra, encoding=enc, codec_errors=errors, timeout=5)
        b = fdpexpect.fdspawn(rb, encoding=enc, codec_errors=errors, timeout=5)
        log = Log(str if enc else bytes)
        a.logfile_read = log
        never = ['\x00\x00NEVER'] if enc else [b'\x00\x00NEVER']
        k = 0
        cut = max(1, len(other) // 2 + (1 if len(other) > 3 else 0))
        ob = [other[:cut], other[cut:]]
        for pc in pieces:
            if not pc:
                continue
            os.write(wa, pc)
            try:
                a.expect_exact(never, timeout=0)
            except TIMEOUT:
                pass
            if k == 0:
                os.write(wb, ob[0])
                try:
                    b.expect_exact(never, timeout=0)
                except TIMEOUT:
                    pass
            if k == 1:
                rc, wc = os.pipe()
                fdpexpect.fdspawn(rc, encoding=enc, codec_errors=errors, timeout=5)
            k += 1
        os.write(wb, ob[1])
        os.close(wb)
        wb = None
        try:
            b.expect_exact(never, timeout=5)
        except EOF:
            pass
        os.close(wa)
        wa = None
        try:
            a.expect_exact(never, timeout=5)
        except EOF:
            pass
        want_b = other.decode(enc, errors) if enc else other
        if b.before != want_b:
            raise OtherObjectSpoiled('the second object read %r, its peer wrote %r' % (b.before, want_b))
        return a.before, log.value()
    finally:
        for fd in (ra, wa, rb, wb, rc, wc):
            if fd is not None:
                try:
                    os.close(fd)
                except OSError:
                    pass


def run_link(kind):
    def run(pieces, enc, errors, use_expect):
        L = Link(kind, encoding=enc, codec_errors=errors, timeout=10)
        try:
            c = L.child
            log = Log(str if enc else bytes)
            c.logfile_read = log
            got = c.string_type()
            for pc in pieces:
                if not pc:
                    continue
                L.peer_write(pc)
                if kind == 'popen':
                    # wait until the reader thread has queued the piece
                    t0 = time.time()
                    while c._read_queue.empty() and time.time() - t0 < 5:
                        time.sleep(0.0005)
                got = got + c.read_nonblocking(1 << 16, 2)
            L.peer_close()
            c.expect(EOF, timeout=10)
            got = got + c.before
            return got, log.value()
        finally:
            L.cleanup()
    return run


RUNNERS = {'fd': run_fd, 'fd_assign': run_fd_assign, 'fd_pair': run_fd_pair, 'socket': run_socket, 'async_direct': run_async_direct, 'async_loop': run_async_loop, 'mixed_loop': run_mixed_loop,
           'pty': run_link('pty'), 'popen': run_link('popen')}


def one(case, acc):
    enc, errors = case['enc'], case['errors']
    data, cuts, tr = case['data'], case['cuts'], case['transport']
    acc.case()
    acc.count('splittings')
    acc.count('transport_' + tr)
    if enc is None:
        whole = data
        acc.count('bytes_mode_cases')
    else:
        whole = data.decode(enc, errors)
    pieces = split_at(data, cuts)
    try:
        got, logged = RUNNERS[tr](pieces, enc, errors, case.get('use_expect', False))
    except PeerError as e:
        acc.inconc('peer: %s' % e)
        return
    except UnicodeDecodeError as e:
        acc.violation('split-raises-decode-error:' + tr, '%s/%s cuts %r of %r: %r' % (enc, errors, cuts, data, e), case)
        return
    except Exception as e:
        acc.violation('transport-raises:%s:%s' % (tr, type(e).__name__), '%s/%s cuts %r of %r: %r' % (enc, errors, cuts, data, e), case)
        return
    st = bytes if enc is None else str
    if not isinstance(got, st):
        acc.violation('wrong-string-type:' + tr, 'delivered %s in %s mode' % (type(got).__name__, enc or 'bytes'), case)
        return
    if got != whole:
        acc.violation('split-changes-text:' + tr, '%s/%s cuts %r of %r: delivered %r, whole decode %r' % (
            enc, errors, cuts, data, got, whole), case)
        return
    acc.count('log_compared')
    if logged != whole:
        acc.violation('log-differs-from-delivered:' + tr, '%s/%s cuts %r: logfile_read %r, whole decode %r' % (
            enc, errors, cuts, logged, whole), case)
        return
    if enc is not None and cuts:
        starts = char_starts(data, enc, errors)
        if any(c not in starts for c in cuts):
            acc.count('cuts_inside_character')
            acc.nontrivial('c07', data, cuts, enc, errors, tr)


def plan(tier, seed):
    specs = []
    if tier == 'quick':
        for i, (a, b) in enumerate(split_range(2400, 8)):
            specs.append({'mode': 'enum', 'n': b - a, 'shard': i, 'seed': seed, 'maxcuts': 2})
        for i, (a, b) in enumerate(split_range(120000, 6)):
            specs.append({'mode': 'rand', 'n': b - a, 'shard': i, 'seed': seed})
        for i in range(4):
            specs.append({'mode': 'slow', 'n': 150, 'shard': i, 'seed': seed})
    else:
        for i, (a, b) in enumerate(split_range(6000, 16)):
            specs.append({'mode': 'enum', 'n': b - a, 'shard': i, 'seed': seed, 'maxcuts': 3})
        for i, (a, b) in enumerate(split_range(600000, 12)):
            specs.append({'mode': 'rand', 'n': b - a, 'shard': i, 'seed': seed})
        for i in range(4):
            specs.append({'mode': 'slow', 'n': 600, 'shard': i, 'seed': seed})
    # interact() in unicode mode with logs: output cut inside characters, keystrokes in between (the log check of C11
    # on sessions made for this purpose)
    for i in range(2):
        specs.append({'mode': 'interact', 'n': 5 if tier == 'quick' else 40, 'shard': 60 + i, 'seed': seed})
    return specs


FAST = ['fd', 'socket', 'async_direct', 'fd_pair', 'fd_assign']
PTY_CODECS = (None, 'utf-8', 'latin-1', 'cp1252', 'shift_jis', 'euc_jp', 'gb18030', 'big5')


def run_shard(spec, acc):
    if 'replay' in spec:
        if spec['replay'].get('interact'):
            from . import c15
            return c15.interact_log_case(spec['replay'], acc)
        return one(spec['replay'], acc)
    if spec['mode'] == 'interact':
        from . import c15
        rng = rng_for(spec['seed'], spec['shard'], 715)
        for _ in range(spec['n']):
            acc.count('interact_sessions_with_cut_characters')
            c15.interact_log_case(c15.gen_case(rng, for_log='split'), acc)
        return
    rng = rng_for(spec['seed'], spec['shard'], {'enum': 71, 'rand': 72, 'slow': 73}[spec['mode']])
    made = 0
    while made < spec['n'] and not acc.too_many():
        enc = rng.choice(CODECS + [None])
        errors = rng.choice(['strict', 'replace', 'ignore'])
        if enc is None:
            data = bytes(rng.randrange(256) for _ in range(rng.randint(1, 14)))
            whole = data
        else:
            g = gen_stream(rng, enc, errors, 4 if spec['mode'] == 'enum' else 14)
            if g is None:
                continue
            data, whole = g
        if spec['mode'] == 'enum':
            if len(data) > 12:
                continue
            made += 1
            tr = FAST[made % len(FAST)]
            n = len(data)
            for k in range(0, spec['maxcuts'] + 1):
                for cuts in itertools.combinations(range(1, n), k):
                    if acc.too_many():
                        break
                    one({'enc': enc, 'errors': errors, 'data': data, 'cuts': list(cuts), 'transport': tr,
                         'use_expect': bool((made + k) % 2)}, acc)
            acc.count('streams_with_all_splittings')
        else:
            made += 1
            n = len(data)
            k = rng.randint(1, min(3, n - 1)) if n > 1 else 0
            cuts = sorted(rng.sample(range(1, n), k)) if k else []
            if spec['mode'] == 'rand':
                tr = rng.choice(FAST)
            else:
                tr = ['pty', 'popen', 'async_loop', 'mixed_loop'][made % 4]
                if tr == 'pty' and enc not in PTY_CODECS:
                    # spawn() encodes the command line with the instance
                    # encoding: only ASCII-compatible, BOM-less codecs can
                    # name the program
                    tr = 'popen'
            case = {'enc': enc, 'errors': errors, 'data': data, 'cuts': cuts, 'transport': tr,
                    'use_expect': rng.random() < 0.5}
            one(case, acc)
            if acc.evaluations <= 2:
                acc.sample({'enc': enc, 'errors': errors, 'data': repr(data), 'cuts': cuts, 'transport': tr})
