"""C14 asyncio parity: twin objects fed the same delivery units at the same
logical points (the Expecter.existing_data / new_data boundaries, shared by
the blocking and the awaited code path)."""
import asyncio
import os
import re
import time

import pexpect
import pexpect.expect
from pexpect import EOF, TIMEOUT, fdpexpect

from ..core.acc import confirmed, second_attempt
from ..core.runner import split_range
from ..core.watchdog import watchdog, CaseTimeout
from ..workloads import gen_expect as G
from ..workloads.puppetctl import PeerError

ID = 'C14'
LEVEL = 'exploration'
PAR = 12
RULE = ('call histories (1..5 calls of expect / expect_exact / expect_list, markers at random list positions, windows) on '
        'three twin objects (fdspawn on pipes; for a subset spawn on real pty children, where EOF is the exit of the child): all blocking, all awaited (async_=True), mixed per call. The same delivery units '
        'are released to each twin at the same logical points: units written while no call is outstanding (before the first '
        'call, between calls - they coalesce in the kernel), units released one by one whenever existing_data/new_data '
        'reported "no match yet", several units at once, EOF alone or together with the last data. Outcomes (index | '
        'exception class, before, after, match span and groups, match_index, pending) are compared call by call up to and '
        'including the first EOF; awaited calls that time out must do so within T + 2 s. Dedicated timeout=0 sub-check. Awaited-only histories are also judged against the naive model of C03 '
        '(chunks known by construction), including awaits abandoned by the caller after which the read transport stays '
        'active and text arrives while no expect is waiting. '
        'non-trivial = history with >=2 calls in which some call consumed >=2 units or units were pre-written; distinct by case')
ASSUMPTIONS = ['the release points are wrappers on Expecter.existing_data / new_data (class level, dispatch on the spawn object)',
               'TIMEOUTs are produced deterministically (no unit left for the call, T = 0.1 s); a twin difference must '
               'reproduce in two further serial runs',
               '_async_pre_await.py is not importable on this interpreter and is not exercised']
REQUIRED = ['histories', 'byte_cut_histories', 'pty_histories', 'calls_compared', 'awaited_calls', 'blocking_calls', 'mixed_objects', 'eof_calls', 'timeout_calls',
            'prewritten_units', 'timeout0_subchecks', 'pty_last_piece_with_exit', 'async_model_calls', 'async_model_abandoned_awaits',
            'async_model_idle_chunks']

T = 0.1
TWINS = {}
_installed = []


def install():
    if _installed:
        return
    E = pexpect.expect.Expecter
    oe, on = E.existing_data, E.new_data

    def existing(self):
        r = oe(self)
        tw = TWINS.get(id(self.spawn))
        if tw is not None and r is None:
            tw.release()
        return r

    def new(self, data):
        r = on(self, data)
        tw = TWINS.get(id(self.spawn))
        if tw is not None and r is None:
            tw.release()
        return r
    E.existing_data, E.new_data = existing, new
    _installed.append((oe, on))


class Twin(object):
    def __init__(self, enc, name):
        self.name = name
        self.r, self.w = os.pipe()
        self.child = fdpexpect.fdspawn(self.r, encoding=enc, timeout=T, maxread=262144)
        self.queue = []
        self.released = 0
        TWINS[id(self.child)] = self

    def release(self):
        """Next delivery unit of the current call (if any)."""
        while self.queue:
            u = self.queue.pop(0)
            self.released += 1
            if u == 'EOF':
                if self.w is not None:
                    os.close(self.w)
                    self.w = None
                return
            if isinstance(u, list):          # several units at once
                for x in u:
                    if x == 'EOF':
                        if self.w is not None:
                            os.close(self.w)
                            self.w = None
                    elif self.w is not None:
                        os.write(self.w, x)
                return
            if self.w is not None:
                os.write(self.w, u)
            return

    def prewrite(self, units):
        for u in units:
            if self.w is not None:
                os.write(self.w, u)

    def cleanup(self, loop):
        TWINS.pop(id(self.child), None)
        try:
            if self.child.async_pw_transport:
                self.child.async_pw_transport[1].close()
        except Exception:
            pass
        if loop is not None:
            try:
                loop.run_until_complete(asyncio.sleep(0))
            except Exception:
                pass
        for fd in (self.w, ):
            if fd is not None:
                try:
                    os.close(fd)
                except OSError:
                    pass
        try:
            os.close(self.r)
        except OSError:
            pass


class PtyTwin(Twin):
    """The same, on a real pty child (the puppet): EOF is the child's exit, which the asyncio transport
    reports through connection_lost(EIO)."""

    def __init__(self, enc, name):
        from ..workloads.puppetctl import Puppet
        self.name = name
        self.pup = Puppet()
        self.child = pexpect.spawn(self.pup.argv[0], self.pup.argv[1:], encoding=enc, timeout=T, maxread=262144)
        self.pup.wait_ready()
        self.queue = []
        self.released = 0
        self.w = True            # "peer still connected"
        self.r = None
        TWINS[id(self.child)] = self

    def _put(self, data):
        from ..workloads.puppetctl import fd_readable
        self.pup.write(data)
        fd_readable(self.child.child_fd, 5)

    def _end(self):
        if self.w:
            self.w = None
            self.pup.exit(0)

    def release(self):
        while self.queue:
            u = self.queue.pop(0)
            self.released += 1
            if u == 'EOF':
                self._end()
                return
            if isinstance(u, list):
                for x in u:
                    if x == 'EOF':
                        self._end()
                    elif self.w:
                        self._put(x)
                return
            if self.w:
                self._put(u)
            return

    def prewrite(self, units):
        for u in units:
            if self.w:
                self._put(u)

    def cleanup(self, loop):
        TWINS.pop(id(self.child), None)
        try:
            if self.child.async_pw_transport:
                self.child.async_pw_transport[1].close()
        except Exception:
            pass
        if loop is not None:
            try:
                loop.run_until_complete(asyncio.sleep(0))
            except Exception:
                pass
        try:
            self.child.close(force=True)
        except Exception:
            pass
        try:
            import signal
            if self.pup.pid:
                os.kill(self.pup.pid, signal.SIGKILL)
        except OSError:
            pass
        self.pup.cleanup()


def conv_unit(u, enc):
    if u == 'EOF':
        return u
    if isinstance(u, list):
        return [conv_unit(x, enc) for x in u]
    if isinstance(u, bytes):
        return u
    return u.encode('utf-8' if enc else 'latin-1')


def outcome(child, ret, exc):
    if exc is None:
        kind = 'eof' if child.after is EOF else 'timeout' if child.after is TIMEOUT else 'match'
        idx = ret
    elif type(exc) is EOF:
        kind, idx = 'eof', 'raised'
    elif type(exc) is TIMEOUT:
        kind, idx = 'timeout', 'raised'
    else:
        return ('error', type(exc).__name__, str(exc)[:120])
    after = child.after if not isinstance(child.after, type) else child.after.__name__
    m = child.match
    if hasattr(m, 'span'):
        mm = ('re', m.span()[1] - m.span()[0], m.groups())
    elif isinstance(m, type):
        mm = ('cls', m.__name__)
    else:
        mm = ('val', m)
    pending = child.before if kind == 'timeout' else child.buffer
    return (kind, idx, child.before, after, mm, child.match_index, pending)


def do_call(tw, call, enc, mode, loop):
    c = tw.child
    conv = (lambda s: s) if enc else (lambda s: s.encode('latin-1'))
    pats = []
    for p in call['pats']:
        if p == 'EOF':
            pats.append(EOF)
        elif p == 'TIMEOUT':
            pats.append(TIMEOUT)
        elif 'x' in p:
            pats.append(conv(p['x']))
        else:
            pats.append(conv(p['re']))
    # what an earlier call left undelivered is still on its way: it arrives before anything newer
    carried = getattr(tw, 'carry', [])
    tw.carry = []
    flat = []
    for u in carried:
        flat.extend(u if isinstance(u, list) else [u])
    if isinstance(tw, PtyTwin):
        # on a pty only one piece may be in flight (see gen): carried pieces are delivered one by one, first
        own = [] if 'EOF' in flat else [conv_unit(u, enc) for u in call['units']]
        tw.queue = (flat[:flat.index('EOF') + 1] if 'EOF' in flat else flat) + own
    elif 'EOF' in flat:
        flat = flat[:flat.index('EOF')]
        tw.prewrite(flat)
        tw.queue = ['EOF']
        tw.release()
        tw.queue = []
    else:
        tw.prewrite(flat)
        tw.prewrite([conv_unit(u, enc) for u in call.get('pre', [])])
        tw.queue = [conv_unit(u, enc) for u in call['units']]
    Tc = call.get('T', T)
    kw = {'timeout': Tc, 'searchwindowsize': call.get('W', -1)}
    ret = exc = None
    t0 = time.time()
    try:
        if mode == 'async':
            # (every third call asks for the awaited form through the legacy spelling of the keyword)
            akw = {'async': True} if (len(call['pats']) + len(call['units'])) % 3 == 0 else {'async_': True}
            akw.update(kw)
            if call['op'] == 'expect':
                co = c.expect(pats, **akw)
            elif call['op'] == 'expect_exact':
                co = c.expect_exact(pats, **akw)
            else:
                co = c.expect_list(c.compile_pattern_list(pats), **akw)
            ret = loop.run_until_complete(co)
        else:
            if call['op'] == 'expect':
                ret = c.expect(pats, **kw)
            elif call['op'] == 'expect_exact':
                ret = c.expect_exact(pats, **kw)
            else:
                ret = c.expect_list(c.compile_pattern_list(pats), **kw)
    except CaseTimeout:
        raise
    except BaseException as e:
        exc = e
    dt = time.time() - t0
    # units of this call that were not released are carried over to the next call (they are part of the stream)
    left = len(tw.queue)
    tw.carry = list(tw.queue)
    tw.queue = []
    return outcome(c, ret, exc), dt, left


def gen_case(rng):
    enc = rng.choice([None, 'utf-8'])
    text = G.rand_text(rng, rng.randint(0, 30))
    if enc is None:
        text = text.replace('\xe9', 'e')
    pieces = [p for p in G.rand_cuts(rng, text, 8) if p]
    if enc and rng.random() < 0.5:
        # cut the encoded stream at arbitrary BYTE offsets: a delivery unit may end inside a character, possibly
        # right where the history switches between a blocking and an awaited call
        raw = text.encode('utf-8')
        n = len(raw)
        k = rng.randint(0, min(7, max(0, n - 1)))
        cuts = sorted(rng.sample(range(1, n), k)) if n > 1 and k else []
        pieces, a = [], 0
        for c in cuts + [n]:
            if raw[a:c]:
                pieces.append(raw[a:c])
            a = c
    ncalls = rng.randint(1, 5)
    calls = []
    timeouts = 0
    for k in range(ncalls):
        kind = rng.choice(['expect', 'expect_exact', 'expect_list'])
        pats = G.rand_pats(rng, 'x' if kind == 'expect_exact' else 're', 3)
        pats = [p for p in pats if not (isinstance(p, dict) and p.get('c'))]
        if not pats:
            pats = [{'x': 'a'}] if kind == 'expect_exact' else [{'re': 'a'}]
        # (stream order: what is written before the call comes first)
        pre = []
        if pieces and rng.random() < 0.3:
            pre = [pieces.pop(0)]
            if pieces and rng.random() < 0.3:
                pre.append(pieces.pop(0))
        n = rng.randint(0, 3) if pieces else 0
        units = []
        for _ in range(n):
            if not pieces:
                break
            if rng.random() < 0.2 and len(pieces) >= 2:
                units.append([pieces.pop(0), pieces.pop(0)])
            else:
                units.append(pieces.pop(0))
        calls.append({'op': kind, 'pats': pats, 'units': units, 'pre': pre, 'W': rng.choice([-1, -1, -1, None, 2, 4, 100])})
    # EOF at the end of the last call's units (alone or together with the last data)
    if rng.random() < 0.6:
        last = calls[-1]
        if last['units'] and rng.random() < 0.5 and not isinstance(last['units'][-1], list):
            last['units'][-1] = [last['units'][-1], 'EOF']
        else:
            last['units'].append('EOF')
        if rng.random() < 0.5:
            # one more call after the stream has ended: when the previous call matched inside the last data, this is
            # the call that has to report EOF (with the rest as before)
            kind = rng.choice(['expect', 'expect_exact', 'expect_list'])
            pats = [p for p in G.rand_pats(rng, 'x' if kind == 'expect_exact' else 're', 3)
                    if not (isinstance(p, dict) and p.get('c'))] or ['EOF']
            calls.append({'op': kind, 'pats': pats, 'units': [], 'pre': [], 'W': rng.choice([-1, -1, None, 4])})
    return {'enc': enc, 'calls': calls, 'mixed': [rng.choice(['sync', 'async']) for _ in calls]}


def gen_pty_tail(rng):
    """pty children whose last piece of output comes together with their exit: the call that picks the piece up
    matches inside it, and one more call follows (it has to report EOF with the rest as before)"""
    import re as _re
    enc = rng.choice([None, 'utf-8'])
    text = G.rand_text(rng, rng.randint(3, 20))
    if enc is None:
        text = text.replace('\xe9', 'e')
    k = rng.randint(0, len(text) - 2)
    head, tail = text[:k], text[k:]
    calls = []
    for pc in [p for p in G.rand_cuts(rng, head, 2) if p]:
        kind = rng.choice(['expect', 'expect_exact', 'expect_list'])
        pats = [p for p in G.rand_pats(rng, 'x' if kind == 'expect_exact' else 're', 3)
                if not (isinstance(p, dict) and p.get('c'))] or ['TIMEOUT']
        calls.append({'op': kind, 'pats': pats, 'units': [pc], 'pre': [], 'W': -1})
    a = rng.randint(0, len(tail) - 1)
    sub = tail[a:a + rng.randint(1, 2)]
    kind = rng.choice(['expect', 'expect_exact', 'expect_list'])
    calls.append({'op': kind, 'pats': [{'x': sub}] if kind == 'expect_exact' else [{'re': _re.escape(sub)}],
                  'units': [[tail, 'EOF']], 'pre': [], 'W': rng.choice([-1, -1, None, 100])})
    kind = rng.choice(['expect', 'expect_exact', 'expect_list'])
    pats = [p for p in G.rand_pats(rng, 'x' if kind == 'expect_exact' else 're', 2)
            if not (isinstance(p, dict) and p.get('c'))] + rng.choice([[], ['EOF'], ['TIMEOUT', 'EOF']])
    calls.append({'op': kind, 'pats': pats or ['EOF'], 'units': [], 'pre': [], 'W': -1})
    return {'enc': enc, 'pty': True, 'pty_last_piece_with_exit': True, 'calls': calls,
            'mixed': [rng.choice(['sync', 'async']) for _ in calls]}


def one(case, acc):
    install()
    acc.case()
    acc.count('histories')
    if any(isinstance(u, bytes) for c0 in case['calls'] for u in list(c0['units']) + list(c0.get('pre', []))):
        acc.count('byte_cut_histories')
    enc = case['enc']
    loop = asyncio.new_event_loop()
    asyncio.set_event_loop(loop)
    if case.get('pty_last_piece_with_exit'):
        acc.count('pty_last_piece_with_exit')
    if case.get('pty'):
        acc.count('pty_histories')
        twins = [PtyTwin(enc, 'blocking'), PtyTwin(enc, 'awaited'), PtyTwin(enc, 'mixed')]
    else:
        twins = [Twin(enc, 'blocking'), Twin(enc, 'awaited'), Twin(enc, 'mixed')]
    acc.count('mixed_objects')
    try:
        multi = False
        for k, call in enumerate(case['calls']):
            outs = []
            for tw in twins:
                mode = 'sync' if tw.name == 'blocking' else 'async' if tw.name == 'awaited' else case['mixed'][k]
                acc.count('awaited_calls' if mode == 'async' else 'blocking_calls')
                o, dt, left = do_call(tw, call, enc, mode, loop)
                outs.append((tw.name, mode, o, dt, left))
            acc.count('calls_compared')
            acc.count('prewritten_units', len(call.get('pre', [])))
            ref = outs[0]
            if len(call['units']) - ref[4] >= 2 or call.get('pre'):
                multi = True
            for name, mode, o, dt, left in outs[1:]:
                if o != ref[2]:
                    mech = 'async-differs-from-blocking'
                    if call.get('T', T) == 0:
                        mech = 'timeout0-' + mech
                    if o[0] == 'error':
                        mech = 'async-raises:' + str(o[1])
                    elif o[0] != ref[2][0]:
                        mech += ':outcome-kind'
                    elif o[1] != ref[2][1]:
                        mech += ':index'
                    elif o[2] != ref[2][2] or o[6] != ref[2][6]:
                        mech += ':before-or-pending'
                    else:
                        mech += ':after-or-match'
                    acc.violation(mech, 'call #%d %s %r units=%r pre=%r: blocking %r; %s(%s) %r' % (
                        k, call['op'], call['pats'], call['units'], call.get('pre'), ref[2], name, mode, o), case)
                    return
                if mode == 'async' and o[0] == 'timeout' and dt > call.get('T', T) + 2.0:
                    acc.violation('awaited-call-exceeds-timeout', 'call #%d awaited with timeout %.2f took %.2f s' % (
                        k, call.get('T', T), dt), case)
                    return
            if ref[2][0] == 'error':
                acc.violation('blocking-call-raises', 'call #%d: %r' % (k, ref[2]), case)
                return
            if ref[2][0] == 'timeout':
                acc.count('timeout_calls')
            if ref[2][0] == 'eof':
                acc.count('eof_calls')
                break            # compared up to and including the first EOF
        if len(case['calls']) >= 2 and multi:
            acc.nontrivial('c14', case)
        if acc.evaluations <= 2:
            acc.sample(case)
    finally:
        for tw in twins:
            tw.cleanup(loop)
        asyncio.set_event_loop(None)
        loop.close()


def timeout0_case(case, acc):
    """timeout=0 with data already readable: blocking vs awaited."""
    install()
    acc.case()
    acc.count('timeout0_subchecks')
    enc = case['enc']
    loop = asyncio.new_event_loop()
    asyncio.set_event_loop(loop)
    twins = [Twin(enc, 'blocking'), Twin(enc, 'awaited')]
    try:
        call = {'op': case['op'], 'pats': [{'x': 'hello'}] if case['op'] == 'expect_exact' else [{'re': 'hel+o'}],
                'units': [], 'pre': ['say hello'] if case['readable'] else [], 'T': 0}
        if case['pending']:
            # text already pending in the object: both must match
            for tw in twins:
                tw.child.buffer = 'xx hello yy' if enc else b'xx hello yy'
        outs = []
        for tw in twins:
            mode = 'sync' if tw.name == 'blocking' else 'async'
            o, dt, left = do_call(tw, call, enc, mode, loop)
            outs.append(o)
        if outs[0] != outs[1]:
            mech = 'timeout0-async-differs-from-blocking'
            if case['readable'] and not case['pending'] and outs[0][0] == 'match' and outs[1][0] == 'timeout':
                mech = 'timeout0-awaited-ignores-immediately-readable-data'
            acc.violation(mech, 'timeout=0, %s: blocking %r; awaited %r' % (
                'pending text' if case['pending'] else 'data readable' if case['readable'] else 'nothing readable',
                outs[0], outs[1]), case)
        acc.nontrivial('c14t0', case)
    finally:
        for tw in twins:
            tw.cleanup(loop)
        asyncio.set_event_loop(None)
        loop.close()


def plan(tier, seed):
    n = 900 if tier == 'quick' else 20000
    specs = [{'n': b - a, 'shard': i, 'seed': seed} for i, (a, b) in enumerate(split_range(n, 15))]
    specs.append({'t0': True})
    n, k = (240, 6) if tier == 'quick' else (6000, 15)
    for i, (a, b) in enumerate(split_range(n, k)):
        # awaited calls against the naive model, incl. awaits abandoned by the caller (checks/_async_model.py)
        specs.append({'am': True, 'n': b - a, 'shard': 500 + i, 'seed': seed})
    return specs


def guarded(case, acc):
    # (a call with timeout=0 has nothing to wait for: ten seconds are ample, and a dozen such cases that all hang must
    # not use up the shard's own time limit - that would turn the refuting observation into "inconclusive")
    limit = 10 if case.get('t0') else 60
    try:
        with watchdog(limit):
            if case.get('t0'):
                timeout0_case(case, acc)
            else:
                one(case, acc)
    except PeerError as e:
        acc.inconc('peer: %s' % e)
    except CaseTimeout as e:
        second_attempt(acc, case, lambda: (timeout0_case if case.get('t0') else one)(case, acc), limit,
                       'history did not finish within %d s (every call in it has a timeout of %s s)' % (
                           limit, '0' if case.get('t0') else '%.1f' % T))


def is_model_case(case):
    return bool(case.get('calls')) and 'idle' in case['calls'][0]


def run_shard(spec, acc):
    from . import _async_model as AM
    if 'replay' in spec:
        if is_model_case(spec['replay']):
            return AM.run(spec, acc, 'awaited')
        return guarded(spec['replay'], acc)
    if spec.get('am'):
        return AM.run(spec, acc, 'awaited')
    if spec.get('t0'):
        for enc in (None, 'utf-8'):
            for op in ('expect', 'expect_exact', 'expect_list'):
                for readable in (False, True):
                    for pending in (False, True):
                        guarded({'t0': True, 'enc': enc, 'op': op, 'readable': readable, 'pending': pending}, acc)
                        if acc.too_many():
                            return
        return
    rng = G.rng_for(spec['seed'], spec['shard'], 14)
    for i in range(spec['n']):
        case = gen_case(rng)
        if i % 12 == 11:
            case = gen_pty_tail(rng)
        elif i % 12 == 5 or os.environ.get('PVMON_C14_ALLPTY'):
            # a subset on real pty children (EOF = exit, connection_lost(EIO) on the asyncio side).  A pty hands
            # over one written piece per os.read; the blocking path assembles several available pieces in one
            # read_nonblocking while the event loop delivers them one by one, so "the same read splitting" only
            # exists when at most one piece is in flight: no pre-written and no several-at-once units here.
            case['pty'] = True
            for call in case['calls']:
                flat = []
                for u in list(call.get('pre', [])) + list(call['units']):
                    flat.extend(u if isinstance(u, list) else [u])
                call['pre'] = []
                if len(flat) >= 2 and flat[-1] == 'EOF' and flat[-2] != 'EOF' and (i // 12) % 2 == 0:
                    # the child's last piece and its exit together: a blocking read that picks up the piece also
                    # runs into the end of the pty (and keeps that to itself until the next call)
                    flat = flat[:-2] + [[flat[-2], 'EOF']]
                    case['pty_last_piece_with_exit'] = True
                call['units'] = flat
        confirmed(case, guarded, acc)
