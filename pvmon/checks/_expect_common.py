"""Shared shard driver of C01..C04: the same scripted histories (H1) feed four
different oracles; every property has its own check, oracle and counters."""
from ..core.runner import split_range
from ..workloads import gen_expect as G
from ..workloads.scripted import steps
from ..core.watchdog import watchdog, CaseTimeout

SIZES = {
    # tier: (random histories, straddle histories, exhaustive (maxlen, maxcuts))
    'quick': (160000, 30000, (5, 2)),
    'thorough': (1200000, 200000, (6, 3)),
}


def plan(tier, seed, nshards=16):
    nr, ns, exh = SIZES[tier]
    specs = []
    for i, (a, b) in enumerate(split_range(nr, nshards)):
        specs.append({'gen': 'rand', 'n': b - a, 'shard': i, 'seed': seed, 'tier': tier})
    for i, (a, b) in enumerate(split_range(ns, max(1, nshards // 4))):
        specs.append({'gen': 'straddle', 'n': b - a, 'shard': 100 + i, 'seed': seed, 'tier': tier})
    if tier == 'thorough':
        specs.append({'gen': 'h9', 'seed': seed, 'tier': tier})
    nx = 8 if tier == 'thorough' else 2
    for i in range(nx):
        specs.append({'gen': 'exh', 'part': i, 'parts': nx, 'exh': exh, 'shard': 200 + i,
                      'seed': seed, 'tier': tier})
    return specs


def cases_of(spec):
    if 'replay' in spec:
        yield spec['replay']
        return
    g = spec['gen']
    if g == 'rand':
        rng = G.rng_for(spec['seed'], spec['shard'])
        for _ in range(spec['n']):
            yield G.rand_case(rng)
    elif g == 'straddle':
        rng = G.rng_for(spec['seed'], spec['shard'], 17)
        for _ in range(spec['n']):
            yield G.straddle_case(rng)
    elif g == 'exh':
        maxlen, maxcuts = spec['exh']
        for k, c in enumerate(G.exhaustive_cases(['a', 'b', '\n'], maxlen, maxcuts)):
            if k % spec['parts'] == spec['part']:
                yield c


H9_TESTS = ['tests/test_expect.py', 'tests/test_misc.py', 'tests/test_unicode.py', 'tests/test_log.py',
            'tests/test_popen_spawn.py', 'tests/test_filedescriptor.py', 'tests/test_run.py', 'tests/test_timeout_pattern.py']


def run_h9(acc, prop):
    """H9: the repository's own tests (real children, kernel-chosen chunking) under the passive monitors."""
    import json
    import os
    import shutil
    import subprocess
    import sys
    import tempfile
    from .. import REPO, VERIF
    tmp = tempfile.mkdtemp(prefix='pvmon-h9-')
    try:
        shutil.copytree('/repo/tests', os.path.join(tmp, 'tests'))
        os.symlink(os.path.join(REPO, 'pexpect'), os.path.join(tmp, 'pexpect'))
        out = os.path.join(tmp, 'h9.json')
        env = dict(os.environ, PYTHONPATH=VERIF + os.pathsep + tmp, PVMON_H9_OUT=out)
        cmd = [sys.executable, '-m', 'pytest', '-q', '-p', 'no:cacheprovider', '-p', 'pvmon.pytest_plugin', '--timeout=600',
               '--deselect', 'tests/test_misc.py::TestCaseMisc::test_exception_tb'] + H9_TESTS
        p = subprocess.run(cmd, cwd=tmp, env=env, stdout=subprocess.PIPE, stderr=subprocess.STDOUT, timeout=1500)
        try:
            rep = json.load(open(out))
        except Exception:
            acc.inconc('H9: no report (pytest said: %s)' % p.stdout.decode('utf-8', 'replace')[-300:])
            return
        for k, v in rep['counters'].items():
            acc.count('h9_' + k, v)
        acc.count('h9_runs')
        for v in rep['violations']:
            if v['property'] == prop:
                acc.violation('h9:' + v['mechanism'], 'repository test under passive monitors: ' + v['detail'], {'h9': True})
    finally:
        shutil.rmtree(tmp, ignore_errors=True)


def drive(spec, acc, make_oracle, on_case_end=None):
    """make_oracle(run, acc) -> callable(run, step) -> [(mechanism, detail)]"""
    if spec.get('gen') == 'h9':
        return run_h9(acc, spec.get('prop', 'C01'))
    hangs = 0
    for case in cases_of(spec):
        if hangs >= 4:
            acc.inconc('shard stopped after %d non-returning calls (each costs a watchdog period)' % hangs)
            break
        acc.case()
        oracle = None
        nops = 0
        bad = False
        run = None
        try:
            # everything is in memory and the script is finite: a call that does not come back
            # within 20 s is a logical hang (refuting event), not a slow machine
            with watchdog(20 if not hangs else 3):
                for run, st in steps(case):
                    if oracle is None:
                        oracle = make_oracle(run, acc)
                    nops += 1
                    if len(st.calls) > 2000:
                        # thousands of engine-level calls for one operation on a <= 40 character
                        # stream: the file-like loop does not terminate by itself
                        acc.violation('call-does-not-return', 'op #%d %s made %d engine-level calls without finishing' % (
                            st.i, st.op, len(st.calls)), case)
                        bad = True
                        break
                    for rec in st.calls:
                        acc.count('engine_calls')
                        acc.count('reads', rec.reads)
                        acc.count('outcome_' + rec.kind.split(':')[0])
                    for mech, detail in oracle(run, st):
                        acc.violation(mech, 'op #%d %s' % (st.i, detail), case)
                        bad = True
                    if bad:
                        break
        except CaseTimeout:
            import pexpect.expect
            import time as _t
            pexpect.expect.time = _t
            acc.violation('call-does-not-return', 'op #%d of the history did not return within 20 s on a finite in-memory script' % nops, case)
            bad = True
            hangs += 1
        if on_case_end and run is not None:
            on_case_end(run, case, acc, bad)
        if acc.evaluations <= 3:
            acc.sample(case)
        if spec.get('gen') == 'exh':
            acc.count('exhaustive_cases')
