"""C13 launch fidelity: command-line splitting round trip, which() vs the
first-match rule (cross-checked by really spawning), and a probe child that
reports argv / cwd / environment / window size / echo / SIGHUP disposition."""
import itertools
import json
import os
import shutil
import signal
import stat
import sys
import tempfile

import pexpect
from pexpect import popen_spawn
from pexpect.utils import split_command_line, which

from ..core.runner import split_range
from ..workloads.gen_expect import rng_for
from ..workloads.puppetctl import PEERS, PY

ID = 'C13'
LEVEL = 'exploration'
RULE = ('(i) argument lists over {letters, space, tab, LF, \', ", \\, e-acute, U+00A0, U+3000, U+001C}, each argument quoted '
        'in one of three styles that follow the documented rules (backslash protects the next character; single / double '
        'quotes protect everything up to the matching quote) or a per-character mix, joined by random non-empty '
        'whitespace with/without leading and trailing whitespace: split_command_line(line) must equal the list; ALL lists '
        'of <=2 arguments of <=3 characters over a 6-symbol alphabet x 3 styles are enumerated. (ii) PATH layouts '
        '(missing, empty string, empty entries, directories shadowing files, non-executable files, symlinks, dangling '
        'symlinks, explicit paths): which() must equal the first-match rule and the program that really runs must be '
        'that file. (iii) probe child started through spawn (string and list forms, bytes and unicode) and PopenSpawn '
        'with chosen cwd/env/dimensions/echo/ignore_sighup must report exactly the request. non-trivial = argument '
        'list containing a character that needs protection / PATH layout with >=2 candidates / probe with >=2 '
        'non-default settings')
ASSUMPTIONS = ['the three quoting functions encode only the documented rules of split_command_line',
               'the probe reads /proc/self/environ, TIOCGWINSZ, termios and the SIGHUP disposition it was exec\'d with']
REQUIRED = ['which_sequences', 'roundtrips', 'roundtrips_leading_ws', 'which_layouts', 'which_spawn_crosschecks', 'probe_spawns',
            'probe_popen', 'enumerated_roundtrips', 'probe_after_failed_launch']

PROBE = os.path.join(PEERS, 'probe.py')
ALPHA = ['a', 'B', ' ', '\t', "'", '"', '\\', '\xe9', '\xa0', '　', '\x1c', '\n', 'z', '-']
WS = [' ', '\t', '  ', ' \t ', '\n', '\xa0', '　', '\x1c']


def q_backslash(a):
    return ''.join('\\' + ch if (ch.isspace() or ch in '\'"\\') else ch for ch in a)


def q_single(a):
    if "'" in a:
        return None
    return "'" + a + "'"


def q_double(a):
    if '"' in a:
        return None
    return '"' + a + '"'


def q_mixed(a, rng):
    out = []
    for ch in a:
        r = rng.random()
        if ch == "'":
            out.append(rng.choice(["\\'", '"\'"']))
        elif ch == '"':
            out.append(rng.choice(['\\"', "'\"'"]))
        elif ch == '\\':
            out.append(rng.choice(['\\\\', "'\\'", '"\\"']))
        elif ch.isspace():
            out.append(rng.choice(['\\' + ch, "'" + ch + "'", '"' + ch + '"']))
        elif r < 0.2:
            out.append("'" + ch + "'")
        elif r < 0.3:
            out.append('\\' + ch)
        else:
            out.append(ch)
    return ''.join(out)


STYLES = [('backslash', lambda a, rng: q_backslash(a)), ('single', lambda a, rng: q_single(a)),
          ('double', lambda a, rng: q_double(a)), ('mixed', q_mixed)]


def roundtrip(argv, styles, seps, lead, trail, rng, acc, enumerated=False):
    parts = []
    for a, st in zip(argv, styles):
        q = STYLES[st][1](a, rng)
        if q is None:
            q = q_backslash(a)
        parts.append(q)
    line = lead
    for i, p in enumerate(parts):
        if i:
            line += seps[(i - 1) % len(seps)]
        line += p
    line += trail
    acc.case()
    acc.count('roundtrips')
    if lead:
        acc.count('roundtrips_leading_ws')
    if enumerated:
        acc.count('enumerated_roundtrips')
    case = {'kind': 'split', 'line': line, 'argv': argv}
    try:
        got = split_command_line(line)
    except Exception as e:
        acc.violation('split-raises', 'split_command_line(%r) raised %r' % (line, e), case)
        return
    if got != argv:
        if lead and got[1:] == argv and got[:1] == ['']:
            mech = 'split-leading-whitespace-empty-first-arg'
        elif lead and got != argv:
            mech = 'split-differs-with-leading-whitespace'
        else:
            mech = 'split-differs'
        acc.violation(mech, 'split_command_line(%r) = %r, expected %r' % (line, got, argv), case)
    if any(ch.isspace() or ch in '\'"\\' for a in argv for ch in a):
        if enumerated:
            acc.count('_distinct_by_construction')
        else:
            acc.nontrivial('c13s', line)
    if acc.evaluations <= 2:
        acc.sample(case)


def plan(tier, seed):
    n = 400000 if tier == 'quick' else 6000000
    specs = [{'mode': 'split', 'n': b - a, 'shard': i, 'seed': seed} for i, (a, b) in enumerate(split_range(n, 8))]
    specs.append({'mode': 'split-enum', 'maxlen': 2 if tier == 'quick' else 3})
    k = 4 if tier == 'quick' else 8
    for i in range(k):
        specs.append({'mode': 'which', 'n': 100 if tier == 'quick' else 600, 'shard': i, 'seed': seed})
        specs.append({'mode': 'probe', 'n': 30 if tier == 'quick' else 250, 'shard': i, 'seed': seed})
        specs.append({'mode': 'which-seq', 'n': 40 if tier == 'quick' else 400, 'shard': i, 'seed': seed})
    return specs


def run_shard(spec, acc):
    signal.signal(signal.SIGHUP, signal.SIG_DFL)
    if 'replay' in spec:
        c = spec['replay']
        import random
        rng = random.Random(0)
        if c['kind'] == 'split':
            acc.case()
            got = split_command_line(c['line'])
            if got != c['argv']:
                acc.violation('split-differs', 'split_command_line(%r) = %r, expected %r' % (c['line'], got, c['argv']), c)
        elif c['kind'] == 'which':
            tmp = tempfile.mkdtemp(prefix='pvmon-c13-')
            try:
                which_case(c, tmp, acc)
            finally:
                shutil.rmtree(tmp, ignore_errors=True)
        else:
            tmp = tempfile.mkdtemp(prefix='pvmon-c13-')
            try:
                probe_case(c, tmp, acc)
            finally:
                shutil.rmtree(tmp, ignore_errors=True)
        return
    m = spec['mode']
    if m == 'split':
        rng = rng_for(spec['seed'], spec['shard'], 13)
        for _ in range(spec['n']):
            argv = [''.join(rng.choice(ALPHA) for _ in range(rng.randint(1, 6))) for _ in range(rng.randint(1, 5))]
            styles = [rng.randrange(4) for _ in argv]
            seps = [rng.choice(WS) for _ in argv]
            lead = rng.choice(WS) if rng.random() < 0.4 else ''
            trail = rng.choice(WS) if rng.random() < 0.4 else ''
            roundtrip(argv, styles, seps, lead, trail, rng, acc)
    elif m == 'split-enum':
        import random
        rng = random.Random(0)
        alpha = ['a', ' ', "'", '"', '\\', '\t']
        words = []
        for n in range(1, spec['maxlen'] + 1):
            words += [''.join(t) for t in itertools.product(alpha, repeat=n)]
        for a in words:
            for st in range(3):
                for lead, trail in (('', ''), (' ', ''), ('', '\t'), ('\t ', ' ')):
                    roundtrip([a], [st], [' '], lead, trail, rng, acc, True)
        for a, b in itertools.product(words, repeat=2):
            if len(a) + len(b) > 5 and spec['maxlen'] < 3:
                continue
            for st in range(3):
                roundtrip([a, b], [st, (st + 1) % 3], [' '], ' ' if (len(a) + st) % 2 else '', '', rng, acc, True)
        acc.count('enumerations_completed')
    elif m == 'which':
        rng = rng_for(spec['seed'], spec['shard'], 131)
        tmp = tempfile.mkdtemp(prefix='pvmon-c13-')
        try:
            for i in range(spec['n']):
                which_case(gen_which(rng, i), tmp, acc)
        finally:
            shutil.rmtree(tmp, ignore_errors=True)
    elif m == 'which-seq':
        rng = rng_for(spec['seed'], spec['shard'], 133)
        tmp = tempfile.mkdtemp(prefix='pvmon-c13-')
        try:
            for i in range(spec['n']):
                which_sequence(rng, tmp, acc)
        finally:
            shutil.rmtree(tmp, ignore_errors=True)
    elif m == 'probe':
        rng = rng_for(spec['seed'], spec['shard'], 132)
        tmp = tempfile.mkdtemp(prefix='pvmon-c13-')
        try:
            for i in range(spec['n']):
                probe_case(gen_probe(rng, i), tmp, acc)
        finally:
            shutil.rmtree(tmp, ignore_errors=True)


# ------------------------------------------------------------------ which

KINDS = ['exec', 'noexec', 'dir', 'symlink-exec', 'symlink-noexec', 'dangling', 'absent', 'absent', 'exec']


def gen_which(rng, i):
    ndirs = rng.randint(1, 4)
    layout = [rng.choice(KINDS) for _ in range(ndirs)]
    path_entries = list(range(ndirs))
    rng.shuffle(path_entries)
    extra = rng.choice(['none', 'empty-entry-first', 'empty-entry-last', 'missing-dir', 'none', 'dot-first', 'dotslash-first',
                        'relative-first', 'dotdot-first'])
    pathmode = rng.choice(['env', 'env', 'environ', 'env-no-PATH', 'env-empty-PATH'])
    name = rng.choice(['prog', 'prog', 'sub/prog', 'ABS', 'my prog'])
    return {'kind': 'which', 'layout': layout, 'order': path_entries, 'extra': extra, 'pathmode': pathmode,
            'name': name, 'cwd_has': rng.choice(['exec', 'absent', 'absent']), 'i': i}


def mkfile(path, kind, ident):
    d = os.path.dirname(path)
    os.makedirs(d, exist_ok=True)
    if kind in ('exec', 'noexec'):
        with open(path, 'w') as f:
            f.write('#!/bin/sh\nprintf "ID:%s:DI" "%s"\n' % ('%s', ident))
        os.chmod(path, 0o755 if kind == 'exec' else 0o644)
    elif kind == 'dir':
        os.makedirs(path, exist_ok=True)
    elif kind in ('symlink-exec', 'symlink-noexec'):
        tgt = path + '.target'
        with open(tgt, 'w') as f:
            f.write('#!/bin/sh\nprintf "ID:%s:DI" "%s"\n' % ('%s', ident))
        os.chmod(tgt, 0o755 if kind == 'symlink-exec' else 0o644)
        os.symlink(tgt, path)
    elif kind == 'dangling':
        os.symlink(path + '.nothing', path)


def is_exec_ref(p):
    """regular file after following symlinks with an execute bit"""
    try:
        st = os.stat(p)
    except OSError:
        return False
    return stat.S_ISREG(st.st_mode) and bool(st.st_mode & 0o111)


def which_ref(name, pathstr, cwd):
    """first-match rule, written from the documentation"""
    if os.path.dirname(name) != '' and is_exec_ref(os.path.join(cwd, name)):
        return name
    for d in pathstr.split(os.pathsep):
        cand = os.path.join(d, name)
        if is_exec_ref(os.path.join(cwd, cand)):
            return cand
    return None


def which_case(c, tmp, acc):
    acc.case()
    acc.count('which_layouts')
    root = tempfile.mkdtemp(dir=tmp)
    cwd = os.path.join(root, 'cwd')
    os.makedirs(cwd)
    dirs = []
    name = c['name']
    relname = name
    for k, kind in enumerate(c['layout']):
        d = os.path.join(root, 'd%d' % k)
        os.makedirs(d, exist_ok=True)
        dirs.append(d)
        if name != 'ABS':
            mkfile(os.path.join(d, name), kind, 'd%d' % k)
    if name == 'ABS':
        relname = os.path.join(dirs[0], 'prog')
        mkfile(relname, c['layout'][0], 'd0')
    if c['cwd_has'] == 'exec' and name != 'ABS':
        mkfile(os.path.join(cwd, name), 'exec', 'cwd')
    entries = [dirs[k] for k in c['order']]
    if c['extra'] == 'empty-entry-first':
        entries.insert(0, '')
    elif c['extra'] == 'empty-entry-last':
        entries.append('')
    elif c['extra'] == 'missing-dir':
        entries.insert(0, os.path.join(root, 'nonexistent'))
    elif c['extra'] == 'dot-first':
        entries.insert(0, '.')
    elif c['extra'] == 'dotslash-first':
        entries.insert(0, './')
    elif c['extra'] == 'relative-first':
        # (relative entries are meant relative to the directory the parent is in when it spawns)
        entries.insert(0, os.path.join('..', 'd%d' % c['order'][-1]))
    elif c['extra'] == 'dotdot-first':
        entries.insert(0, os.path.join('..', 'cwd', '.'))
    pathstr = os.pathsep.join(entries)
    old_cwd = os.getcwd()
    old_path = os.environ.get('PATH')
    os.chdir(cwd)
    try:
        pm = c['pathmode']
        if pm == 'env':
            env = {'PATH': pathstr, 'OTHER': '1'}
            eff = pathstr
        elif pm == 'environ':
            env = None
            os.environ['PATH'] = pathstr
            eff = pathstr
        elif pm == 'env-no-PATH':
            env = {'OTHER': '1'}
            os.environ['PATH'] = pathstr        # must NOT be used
            eff = os.defpath
        else:
            env = {'PATH': ''}
            os.environ['PATH'] = pathstr
            eff = os.defpath
        exp = which_ref(relname, eff, cwd)
        try:
            got = which(relname, env=env)
        except Exception as e:
            acc.violation('which-raises', 'which(%r) raised %r' % (relname, e), c)
            return
        def same(a, b):
            # the same file under another spelling would do
            if a is None or b is None:
                return a is b
            try:
                return a == b or os.path.samefile(os.path.join(cwd, a), os.path.join(cwd, b))
            except OSError:
                return False
        if not same(got, exp):
            acc.violation('which-not-first-match', 'which(%r, PATH=%r [%s]) = %r, first match is %r; layout %r' % (
                relname, eff, pm, got, exp, c['layout']), c)
            return
        ncand = sum(1 for k in c['layout'] if k in ('exec', 'symlink-exec'))
        if ncand >= 2 or (ncand >= 1 and c['extra'] != 'none'):
            acc.nontrivial('c13w', c)
        # ground truth: run it and let the program identify itself
        # (a bare relative result - a hit through an empty PATH entry - is not
        # spawned: ptyprocess resolves argv[0] again with its own rules)
        if exp is not None and eff is pathstr and env is not None and os.path.dirname(exp) != '':
            acc.count('which_spawn_crosschecks')
            ident = None
            try:
                ch = pexpect.spawn(relname, ['x'], env=env, timeout=10)
                ch.expect(pexpect.EOF)
                out = ch.before
                ch.close()
                if b'ID:' in out:
                    ident = out.split(b'ID:')[1].split(b':DI')[0].decode()
            except Exception as e:
                acc.violation('spawn-fails-for-which-result', 'spawn(%r) with PATH=%r raised %r' % (relname, pathstr, e), c)
                return
            want = os.path.basename(os.path.dirname(os.path.join(cwd, exp))) if name != 'sub/prog' else \
                os.path.basename(os.path.dirname(os.path.dirname(os.path.join(cwd, exp))))
            if want == 'cwd' or ident == 'cwd':
                want_id = 'cwd'
            else:
                want_id = want
            if ident != want_id:
                acc.violation('spawned-program-not-first-match', 'spawn(%r) ran %r, first match on PATH is %r (%s)' % (
                    relname, ident, exp, want_id), c)
        if acc.evaluations <= 1:
            acc.sample(c)
    finally:
        os.chdir(old_cwd)
        if old_path is None:
            os.environ.pop('PATH', None)
        else:
            os.environ['PATH'] = old_path
        shutil.rmtree(root, ignore_errors=True)


def which_sequence(rng, tmp, acc):
    """One PATH string, one command name, the layout behind them changes between look-ups (a program is
    installed in an earlier directory, loses its execute bit, is replaced by a directory ...): every look-up
    must give the first match of the layout as it is now."""
    acc.case()
    acc.count('which_sequences')
    root = tempfile.mkdtemp(dir=tmp)
    try:
        dirs = []
        for k in range(3):
            d = os.path.join(root, 'd%d' % k)
            os.makedirs(d)
            dirs.append(d)
        pathstr = os.pathsep.join(dirs)
        env = {'PATH': pathstr}
        name = 'prog'
        history = []
        for step in range(rng.randint(3, 8)):
            k = rng.randrange(3)
            kind = rng.choice(['exec', 'exec', 'noexec', 'dir', 'absent', 'symlink-exec'])
            target = os.path.join(dirs[k], name)
            for pth in (target, target + '.target'):
                if os.path.islink(pth) or os.path.isfile(pth):
                    os.unlink(pth)
                elif os.path.isdir(pth):
                    shutil.rmtree(pth)
            if kind != 'absent':
                mkfile(target, kind, 'd%d' % k)
            history.append((k, kind))
            exp = which_ref(name, pathstr, root)
            got = which(name, env=env)
            acc.count('which_layouts')
            if got != exp:
                acc.violation('which-not-first-match-after-layout-change',
                              'PATH=d0:d1:d2, layout changes %r: which() = %r, first match now is %r' % (
                                  history, got and os.path.relpath(got, root), exp and os.path.relpath(exp, root)),
                              {'kind': 'which-seq', 'history': history})
                return
            if exp is not None and step % 3 == 2:
                acc.count('which_spawn_crosschecks')
                ch = pexpect.spawn(name, ['x'], env=env, timeout=10)
                ch.expect(pexpect.EOF)
                out = ch.before
                ch.close()
                ident = out.split(b'ID:')[1].split(b':DI')[0].decode() if b'ID:' in out else None
                want = os.path.basename(os.path.dirname(exp))
                if ident != want:
                    acc.violation('spawned-program-not-first-match', 'after layout changes %r spawn ran %r, first match is %s' % (
                        history, ident, want), {'kind': 'which-seq', 'history': history})
                    return
        if len(history) >= 3:
            acc.nontrivial('c13q', history)
    finally:
        shutil.rmtree(root, ignore_errors=True)


# ------------------------------------------------------------------ probe

ARG_ALPHA = ['a', 'b', ' ', '\t', "'", '"', '\\', '\xe9', '€', '$', '*', ';', '-', '=']


def gen_probe(rng, i):
    args = [''.join(rng.choice(ARG_ALPHA) for _ in range(rng.randint(1, 6))) for _ in range(rng.randint(0, 4))]
    c = {'kind': 'probe', 'args': args,
         'form': rng.choice(['list', 'string', 'list', 'popen-list', 'popen-string']),
         'enc': rng.choice([None, 'utf-8']),
         'cwd': rng.choice([None, 'sub dir', 'd\xe9']),
         'env': rng.choice([None, {'A': '1'}, {}, {'X Y': 'a b', 'E': '', 'U': '\xe9=€', 'PATH': '/usr/bin:/bin'}]),
         'dims': rng.choice([None, [7, 13], [1, 1], [300, 500]]),
         'echo': rng.choice([True, True, False]),
         'ignore_sighup': rng.choice([False, False, True]), 'i': i,
         # an earlier launch in the same process that failed inside the fork/exec step (a script whose interpreter
         # does not exist), with the other SIGHUP request: this launch still gets what IT asked for
         'failed_first': rng.random() < 0.25}
    if rng.random() < 0.12:
        # a text-mode object with a narrow encoding and a lenient error policy for the child's OUTPUT: the command
        # line is still handed over exactly, or the launch is refused
        c['enc'] = rng.choice(['ascii', 'latin-1'])
        c['codec_errors'] = rng.choice(['ignore', 'replace', 'strict'])
        c['form'] = rng.choice(['list', 'string'])
        c['args'] = [rng.choice(['plain', 'na\xefve caf\xe9', 'price \u20ac5', 'x']) for _ in range(rng.randint(1, 3))]
        c['cwd'] = None
    return c


def probe_case(c, tmp, acc):
    acc.case()
    root = tempfile.mkdtemp(dir=tmp)
    try:
        cwd = None
        if c['cwd']:
            cwd = os.path.join(root, c['cwd'])
            os.makedirs(cwd, exist_ok=True)
        env = c['env']
        popen = c['form'].startswith('popen')
        base = [PY, '-S', '-E', PROBE]
        args = list(c['args'])
        kw = {'timeout': 20, 'cwd': cwd, 'env': env, 'encoding': c['enc']}
        unrep = False
        if c.get('codec_errors'):
            kw['codec_errors'] = c['codec_errors']
            acc.count('probe_narrow_encoding')
            try:
                [a.encode(c['enc']) for a in args]
            except UnicodeEncodeError:
                unrep = True
        if c.get('failed_first') and not popen:
            bad = os.path.join(root, 'orphan-script')
            with open(bad, 'w') as f:
                f.write('#!/nonexistent/interpreter\n')
            os.chmod(bad, 0o755)
            acc.count('probe_after_failed_launch')
            try:
                x = pexpect.spawn(bad, [], ignore_sighup=not c['ignore_sighup'], timeout=5)
                x.close(force=True)
            except Exception:
                pass
        try:
            if popen:
                acc.count('probe_popen')
                if c['form'] == 'popen-list':
                    ch = popen_spawn.PopenSpawn(base + args, **kw)
                else:
                    import shlex
                    ch = popen_spawn.PopenSpawn(' '.join(shlex.quote(a) for a in base + args), **kw)
            else:
                acc.count('probe_spawns')
                kw.update(echo=c['echo'], ignore_sighup=c['ignore_sighup'])
                if c['dims']:
                    kw['dimensions'] = tuple(c['dims'])
                if c['form'] == 'list':
                    ch = pexpect.spawn(base[0], base[1:] + args, **kw)
                elif c['form'] == 'list-bytes':
                    ch = pexpect.spawn(base[0], base[1:] + [a.encode('utf-8') for a in args], **kw)
                else:
                    line = ' '.join(q_backslash(a) if i % 2 else (q_single(a) or q_double(a) or q_backslash(a))
                                    for i, a in enumerate(base + args))
                    ch = pexpect.spawn(line, **kw)
            ch.expect('PROBE>>>')
            raw = ch.before
            if isinstance(raw, bytes):
                raw = raw.decode('utf-8')
            info = json.loads(raw.split('<<<PROBE', 1)[1])
            ch.expect(pexpect.EOF)
            if popen:
                ch.wait()
                ch.proc.stdin.close()
                ch.proc.stdout.close()
            else:
                ch.close()
        except Exception as e:
            if unrep:
                acc.count('probe_unrepresentable_argv_refused')
                return
            acc.violation('probe-launch-fails', 'launch %r raised %r' % (c, e), c)
            return
        if unrep:
            acc.violation('argv-differs', 'an argument cannot be represented in %s, yet a child was started with argv %r (requested %r, '
                          'codec_errors=%s)' % (c['enc'], [bytes.fromhex(h) for h in info['argv']], args, c['codec_errors']), c)
            return
        if c.get('codec_errors'):
            if [bytes.fromhex(h) for h in info['argv']] != [a.encode(c['enc']) for a in args]:
                acc.violation('argv-differs', 'child saw argv %r, requested %r in %s' % ([bytes.fromhex(h) for h in info['argv']], args, c['enc']), c)
            return
        got_args = [bytes.fromhex(h).decode('utf-8', 'surrogateescape') for h in info['argv']]
        nd = 0
        if got_args != args:
            acc.violation('argv-differs', 'child saw argv %r, requested %r (%s)' % (got_args, args, c['form']), c)
        exp_cwd = os.path.realpath(cwd) if cwd else os.path.realpath(os.getcwd())
        if os.path.realpath(info['cwd']) != exp_cwd:
            acc.violation('cwd-differs', 'child cwd %r, requested %r' % (info['cwd'], exp_cwd), c)
        got_env = sorted(bytes.fromhex(h) for h in info['env'])
        src = env if env is not None else dict(os.environ)
        exp_env = sorted(os.fsencode(k) + b'=' + os.fsencode(v) for k, v in src.items())
        if got_env != exp_env:
            missing = [e for e in exp_env if e not in got_env]
            extra = [e for e in got_env if e not in exp_env]
            acc.violation('environment-differs', 'missing %r extra %r' % (missing[:4], extra[:4]), c)
        if not popen:
            if not info.get('tty'):
                acc.violation('no-tty', 'pty child has no tty', c)
            else:
                exp_dims = c['dims'] or [24, 80]
                if info['winsize'] != exp_dims:
                    acc.violation('winsize-differs', 'child sees %r, requested %r' % (info['winsize'], exp_dims), c)
                if info['echo'] != c['echo']:
                    acc.violation('echo-differs', 'child sees ECHO=%r, requested %r' % (info['echo'], c['echo']), c)
            if info['sighup_ignored'] != c['ignore_sighup']:
                acc.violation('sighup-disposition-differs', 'child SIGHUP ignored=%r, requested %r' % (
                    info['sighup_ignored'], c['ignore_sighup']), c)
            nd = sum([c['dims'] is not None, not c['echo'], c['ignore_sighup']])
        if nd + (cwd is not None) + (env is not None) >= 2:
            acc.nontrivial('c13p', c)
    finally:
        shutil.rmtree(root, ignore_errors=True)


def coverage_extra(acc, tier):
    return {'exhaustive': False,
            'exhaustive_subspaces_completed': acc.counters.get('enumerations_completed', 0)}
