"""C05 deadlines: a timeout is an overall bound, honoured whatever the child
does.  Deciding oracle on virtual time (H3); real-time companions with wide
margins for the cases virtual time cannot model honestly."""
import os
import re
import signal
import sys
import time

import pexpect
from pexpect import EOF, TIMEOUT
from pexpect.expect import searcher_re, searcher_string

from ..core.runner import split_range
from ..hooks.vworld import World, WouldBlockForever, FakeSocket, FakePtyProc, QueueFeeder
from ..workloads.gen_expect import rng_for
from ..workloads.puppetctl import PeerError, proc_stat
from ..workloads.transports import Link

ID = 'C05'
LEVEL = 'exploration'
RULE = ('virtual-time schedules {silence, trickle of small non-matching reads with gap < T forever, burst ending just '
        'before/after the deadline, match arriving at T-eps / T+eps, EOF before/after T, EINTR storms while waiting} x T '
        'in {-1 (distinctive instance default), None, 0, 0.05, 1, 30} x entry points {expect, expect_exact, expect_list, '
        'expect_loop, read_nonblocking, waitnoecho} x transport classes {fdspawn, spawn(pty), SocketSpawn, PopenSpawn} x '
        'select/poll, incl. floods in which every read comes back exactly full (len == maxread) and a single full burst late in the wait; per call: elapsed <= T + 3*(delayafterread+50us) + 1ms (+ two 0.1 s polling steps for waitnoecho), '
        'TIMEOUT => elapsed >= T, None => no TIMEOUT inside the horizon, timeout 0 examines pending and immediately '
        'readable data, a match that arrived in time is reported. Real-time companions: trickling pty/popen children, '
        'silent socket, waitnoecho, child that closes its terminal but stays alive. non-trivial = schedule with >=2 '
        'arrivals or an EINTR or an arrival within 0.25 s of the deadline; distinct by whole case')
ASSUMPTIONS = ['virtual descriptors/clock replace os.read, select/poll and time of the pexpect modules; ptyprocess liveness '
               'and echo are scripted stand-ins in the virtual part',
               'real-time companions accept [T-20 ms, T+2 s] and re-run a failing case twice serially before reporting',
               'timeout=None is decided only up to a virtual horizon']
REQUIRED = ['virtual_calls', 'overall_bound_checks', 'early_timeout_checks', 'none_horizon_checks', 'timeout0_checks',
            'minus_one_checks', 'eintr_injected', 'waitnoecho_calls', 'real_cases', 'transport_fd', 'transport_pty',
            'transport_socket', 'transport_popen']

DEFAULT_T = 7.77
MATCH = b'MATCH'
ENTRIES = ['expect', 'expect_exact', 'expect_list', 'expect_loop', 'expect_loop_str', 'read_nonblocking']
KINDS = ['silence', 'trickle', 'burst-before', 'burst-after', 'match-before', 'match-after', 'eof-before', 'eof-after',
         'trickle-match-before', 'match-now', 'nomatch-now', 'flood-full-reads', 'late-full-burst', 'full-reads-trickle']
SMALL_MAXREAD = 40


def gen_virtual(rng):
    T = rng.choice([-1, -1, None, 0, 0, 0.05, 1, 1, 30])
    kind = rng.choice(KINDS)
    Teff = DEFAULT_T if T == -1 else T
    base = Teff if (Teff is not None and Teff > 0) else 2.0
    sched = []
    eps = rng.choice([0.011, 0.043, 0.19]) * (1 if base >= 1 else 0.1)
    gap = rng.choice([0.3, 0.07, 0.013]) * (base if base < 1 else 1)
    if kind == 'trickle' or kind == 'trickle-match-before':
        t = gap
        stop = base * 3 + 5 if kind == 'trickle' else base - eps
        n = 0
        while t < stop and n < 400:
            sched.append((round(t, 6), b'x'))
            t += gap
            n += 1
        if kind == 'trickle-match-before':
            sched.append((round(base - eps, 6), MATCH))
    elif kind == 'burst-before':
        for i in range(rng.randint(1, 5)):
            sched.append((round(base - eps - 0.001 * (5 - i), 6), b'yy'))
    elif kind == 'burst-after':
        for i in range(rng.randint(1, 5)):
            sched.append((round(base + eps + 0.001 * i, 6), b'yy'))
    elif kind == 'match-before':
        sched.append((round(base - eps, 6), MATCH))
    elif kind == 'match-after':
        sched.append((round(base + eps, 6), MATCH))
    elif kind == 'eof-before':
        sched.append((round(base - eps, 6), 'END'))
    elif kind == 'eof-after':
        sched.append((round(base + eps, 6), 'END'))
    elif kind == 'flood-full-reads':
        # more than maxread bytes are always available: every read comes back exactly full
        sched.append((0.0, b'f' * (SMALL_MAXREAD * 1500)))
    elif kind == 'late-full-burst':
        # silence, then one burst of exactly maxread bytes late in the wait, then silence
        sched.append((round(base * rng.choice([0.5, 0.7, 0.9]), 6), b'g' * SMALL_MAXREAD))
    elif kind == 'full-reads-trickle':
        t = gap
        n = 0
        while t < base * 3 + 5 and n < 400:
            sched.append((round(t, 6), b'h' * SMALL_MAXREAD))
            t += gap
            n += 1
    elif kind == 'match-now':
        sched.append((0.0, b'zz' + MATCH))
    elif kind == 'nomatch-now':
        sched.append((0.0, b'zz'))
    sched.sort(key=lambda e: e[0])
    case = {'virtual': True, 'T': T, 'kind': kind, 'sched': sched,
            'transport': rng.choice(['fd', 'pty', 'socket', 'popen']), 'poll': rng.random() < 0.4,
            'entry': rng.choice(ENTRIES),
            'pending': rng.choice(['', '', 'ab', 'q' + MATCH.decode() + 'r']) if rng.random() < 0.3 else '',
            'eintr': sorted(round(rng.uniform(0.001, base * 1.2), 6) for _ in range(rng.choice([0, 0, 1, 3, 8]))),
            'exit_at': None}
    if Teff is not None and Teff > 0 and rng.random() < 0.2:
        # signals arriving in the last microsecond of the wait: when the interrupted wait is resumed its remaining
        # time has run out (the retry must come back empty-handed, not fail on a negative timeout)
        case['eintr'] = sorted(case['eintr'] + [round(Teff + k * 2.5e-7, 9) for k in range(-14, 15)])
        case['eintr_at_deadline'] = True
    if kind in ('flood-full-reads', 'late-full-burst', 'full-reads-trickle'):
        case['maxread'] = SMALL_MAXREAD
        if kind == 'flood-full-reads' and (Teff is None or Teff > 0.05):
            return gen_virtual(rng)            # (the flood is finite: keep it longer than the deadline under test)
    if case['transport'] == 'popen' and T == 30:
        # the PopenSpawn class polls its queue every delayafterread (0.1 ms): keep its virtual calls short
        return gen_virtual(rng)
    if Teff is None:
        # the horizon: something decisive arrives very late, or never
        late = rng.choice([5000.0, 1e6, None])
        case['sched'] = [e for e in sched if e[1] != 'END' and e[1] != MATCH]
        if late is not None:
            case['sched'].append((late, rng.choice([MATCH, 'END'])))
        if case['transport'] == 'popen':
            case['sched'] = [e for e in case['sched'] if e[0] < 100] + ([(4.0, MATCH)] if late is not None else [])
            case['sched'].sort(key=lambda e: e[0])
    return case


def build(world, case, t0):
    """-> (child, peer info) on the virtual world"""
    tr = case['transport']
    events = []
    for dt, p in case['sched']:
        if p == 'END':
            p = 'HUP' if tr == 'pty' else 'EOF'
        events.append((t0 + dt, p))
    kw = {'timeout': DEFAULT_T, 'maxread': case.get('maxread', 2000)}
    info = {}
    if tr == 'fd':
        from pexpect import fdpexpect
        fd = world.new_fd(events)
        c = fdpexpect.fdspawn(fd, use_poll=case['poll'], **kw)
    elif tr == 'pty':
        fd = world.new_fd(events)
        c = pexpect.spawn(None, use_poll=case['poll'], **kw)
        c.child_fd = fd
        c.closed = False
        c.terminated = False
        c.pid = 999999
        end = [t for t, p in events if p == 'HUP']
        c.ptyproc = FakePtyProc(world, fd, exit_at=end[0] if end else None)
        info['ptyproc'] = c.ptyproc
    elif tr == 'socket':
        from pexpect import socket_pexpect
        s = FakeSocket(world, events)
        s.settimeout(12.5)
        c = socket_pexpect.SocketSpawn(s, **kw)
        info['sock'] = s
    else:
        import queue
        from pexpect.popen_spawn import PopenSpawn
        from pexpect.spawnbase import SpawnBase
        c = PopenSpawn.__new__(PopenSpawn)
        SpawnBase.__init__(c, **kw)
        c.crlf = b'\n'
        c._buf = b''
        c._read_queue = queue.Queue()
        c.closed = False
        c.proc = None
        info['feeder'] = QueueFeeder(world, c._read_queue, events)
    return c, info


def do_call(c, case):
    e, T = case['entry'], case['T']
    if e == 'expect':
        return c.expect([b'never', MATCH], timeout=T)
    if e == 'expect_exact':
        return c.expect_exact([b'never', MATCH], timeout=T)
    if e == 'expect_list':
        return c.expect_list([re.compile(b'never'), re.compile(MATCH)], timeout=T)
    if e == 'expect_loop':
        return c.expect_loop(searcher_re([re.compile(b'never'), re.compile(MATCH)]), timeout=T)
    if e == 'expect_loop_str':
        return c.expect_loop(searcher_string([b'never', MATCH]), timeout=T)
    if e == 'read_nonblocking':
        return c.read_nonblocking(100, T)
    raise ValueError(e)


def virtual_case(case, acc):
    acc.case()
    acc.count('virtual_calls')
    acc.count('transport_' + case['transport'])
    T = case['T']
    Teff = DEFAULT_T if T == -1 else T
    w = World()
    with w:
        t0 = w.clock.peek() + 0.5
        c, info = build(w, case, t0)
        w.clock.now = t0
        w.eintr = [t0 + x for x in case['eintr']] if case['transport'] in ('fd', 'pty') else []
        n_eintr = len(w.eintr)
        if case['pending']:
            c.buffer = case['pending'].encode()
        horizon = 1e6 + 10
        if case['transport'] == 'popen':
            horizon = 30.0 if Teff is None else (Teff + 50)
        w.clock.horizon = t0 + horizon
        reads = [0]
        orig = c.read_nonblocking

        def counted(*a, **k):
            reads[0] += 1
            return orig(*a, **k)
        if case['entry'] != 'read_nonblocking':
            c.read_nonblocking = counted
        start = w.clock.peek()
        ret = exc = None
        try:
            ret = do_call(c, case)
        except BaseException as e:
            exc = e
        end = w.clock.peek()
        if 'feeder' in info:
            w.clock.on_advance = None
        elapsed = end - start
        acc.count('eintr_injected', n_eintr - len(w.eintr))
        sock = info.get('sock')
    rn = case['entry'] == 'read_nonblocking'
    if exc is None:
        if rn:
            out = 'data'
        else:
            out = 'match'
    elif type(exc) is TIMEOUT:
        out = 'timeout'
    elif type(exc) is EOF:
        out = 'eof'
    elif isinstance(exc, WouldBlockForever):
        out = 'hang'
    else:
        out = 'error'
    r = max(reads[0], 1)
    dar = c.delayafterread or 0.0
    # the loop re-computes the remaining time after every read, so the bound is T plus the overhead of
    # a few loop iterations - not of all r reads
    slack = 3 * (dar + 50e-6) + 1e-3
    desc = '%s/%s%s %s T=%r %s: %s after %.6f s, %d reads%s' % (
        case['transport'], 'poll' if case['poll'] else 'select', '', case['entry'], T, case['kind'], out, elapsed, r,
        (' [%r]' % exc) if out == 'error' else '')

    def v(mech):
        acc.violation(mech, desc, case)

    if out == 'error':
        v('foreign-exception:' + type(exc).__name__)
        return
    # what arrived, and when (relative)
    first_match = None
    pend_has = MATCH.decode() in case['pending']
    seen = case['pending'].encode()
    for dt, p in case['sched']:
        if p == 'END':
            break
        seen += p
        if MATCH in seen and first_match is None:
            first_match = dt
    eof_at = next((dt for dt, p in case['sched'] if p == 'END'), None)
    first_data = next((dt for dt, p in case['sched'] if p != 'END'), None)
    if Teff is None:
        acc.count('none_horizon_checks')
        if out == 'timeout':
            v('timeout-although-None')
        elif out == 'hang' and not rn and (first_match is not None or eof_at is not None) and \
                min(x for x in (first_match, eof_at) if x is not None) < 1e6 + 5 and case['transport'] != 'popen':
            v('hang-although-data-scheduled')
    elif Teff > 0:
        acc.count('overall_bound_checks')
        if T == -1:
            acc.count('minus_one_checks')
        if out == 'hang':
            v('hang-with-finite-timeout')
        elif elapsed > Teff + slack:
            v('deadline-overrun')
        if out == 'timeout':
            acc.count('early_timeout_checks')
            if elapsed < Teff - 1e-9 and (eof_at is None or eof_at > elapsed):
                v('early-timeout' if T != -1 else 'early-timeout-minus-one-not-instance-default')
        if not rn and not pend_has and first_match is not None and first_match < Teff - slack - 0.005 and out != 'match' \
                and (eof_at is None or eof_at > first_match):
            v('timeout-although-match-arrived-in-time')
    else:
        acc.count('timeout0_checks')
        if out == 'hang':
            v('hang-with-timeout-0')
        elif elapsed > slack + 0.01:
            v('deadline-overrun')
        now_match = pend_has or (first_match is not None and first_match <= 0.0)
        if not rn and now_match and out != 'match':
            v('timeout0-ignores-' + ('pending-text' if pend_has else 'immediately-readable-data'))
        if rn and first_data is not None and first_data <= 0.0 and out != 'data':
            v('timeout0-ignores-immediately-readable-data')
    if not rn and pend_has and out != 'match':
        v('pending-occurrence-not-reported')
    if sock is not None and sock.gettimeout() != 12.5:
        acc.violation('socket-timeout-not-restored', desc + ' socket timeout now %r' % sock.gettimeout(), case)
    near = any(abs(dt - (Teff or 0)) < 0.25 for dt, p in case['sched']) if Teff else False
    if len(case['sched']) >= 2 or case['eintr'] or near:
        acc.nontrivial('c05v', case)
    if acc.evaluations <= 3:
        acc.sample({k: (v if k != 'sched' else repr(v[:6])) for k, v in case.items()})


# ------------------------------------------------------------- waitnoecho

def waitnoecho_case(case, acc):
    acc.case()
    acc.count('waitnoecho_calls')
    T, off = case['T'], case['off_at']
    Teff = DEFAULT_T if T == -1 else T
    w = World()
    with w:
        t0 = w.clock.peek() + 0.5
        fd = w.new_fd([])
        c = pexpect.spawn(None, timeout=DEFAULT_T)
        c.child_fd, c.closed, c.terminated = fd, False, False
        c.ptyproc = FakePtyProc(w, fd, echo_off_at=None if off is None else t0 + off)
        w.clock.now = t0
        w.clock.horizon = t0 + 1000
        ret = exc = None
        start = w.clock.peek()
        try:
            ret = c.waitnoecho(T) if case.get('positional') else c.waitnoecho(timeout=T)
        except BaseException as e:
            exc = e
        elapsed = w.clock.peek() - start
        polls = c.ptyproc.getecho_calls
    desc = 'waitnoecho(T=%r) echo off at %r: returned %r%s after %.4f s, %d polls' % (
        T, off, ret, (' raised %r' % exc) if exc is not None else '', elapsed, polls)

    def v(mech):
        acc.violation(mech, desc, case)
    hang = isinstance(exc, WouldBlockForever)
    if exc is not None and not hang:
        v('waitnoecho-raises:' + type(exc).__name__)
        return
    step = 0.1
    if off is not None and off <= 0:
        if ret is not True or elapsed > 0.001:
            v('waitnoecho-echo-already-off')
        return
    if Teff is None:
        acc.count('none_horizon_checks')
        if off is None:
            if not hang:
                v('waitnoecho-None-gives-up')
        elif hang or ret is not True or elapsed > off + step + 0.01:
            v('waitnoecho-None-misses-echo-off')
        return
    if hang:
        v('hang-with-finite-timeout')
        return
    acc.count('overall_bound_checks')
    if T == -1:
        acc.count('minus_one_checks')
    # the loop sleeps one polling step, then needs one more poll to notice
    # that the time is up: two steps of documented-as-polling overhead
    if elapsed > max(Teff, 0) + 2 * step + 0.01 + polls * 30e-6:
        v('deadline-overrun')
    if ret is False:
        acc.count('early_timeout_checks')
        if elapsed < Teff - 1e-9:
            v('early-timeout' if T != -1 else 'early-timeout-minus-one-not-instance-default')
    if ret is True and (off is None or elapsed + 1e-9 < off):
        v('waitnoecho-true-while-echo-on')
    if off is not None and off < Teff - step - 0.01 and ret is not True:
        v('waitnoecho-misses-echo-off-in-time')
    if Teff == 0:
        acc.count('timeout0_checks')
    acc.nontrivial('c05w', case)


# --------------------------------------------------------- real-time companions

def timed(fn):
    t0 = time.time()
    try:
        r, e = fn(), None
    except BaseException as ex:
        r, e = None, ex
    return r, e, time.time() - t0


def real_case(case, acc, confirm=True):
    """-> list of (mechanism, detail)"""
    kind = case['real']
    T = case['T']
    bad = []
    if kind in ('pty-trickle', 'popen-trickle'):
        code = ('import sys,time\nfor i in range(400):\n sys.stdout.write("x"); sys.stdout.flush(); time.sleep(%f)\n'
                % case['gap'])
        if kind == 'pty-trickle':
            c = pexpect.spawn(sys.executable, ['-S', '-c', code], timeout=T, use_poll=case.get('poll', False))
        else:
            from pexpect.popen_spawn import PopenSpawn
            c = PopenSpawn([sys.executable, '-S', '-c', code], timeout=T)
        try:
            time.sleep(0.3)
            r, e, dt = timed(lambda: c.expect_exact(b'never', timeout=case['Targ']))
            if type(e) is not TIMEOUT:
                bad.append(('real-foreign-outcome', '%s: %r %r' % (kind, r, e)))
            elif dt > T + 2.0:
                bad.append(('real-deadline-overrun', '%s T=%r trickle gap %.2f: took %.2f s' % (kind, T, case['gap'], dt)))
            elif dt < T - 0.02:
                bad.append(('real-early-timeout', '%s T=%r: TIMEOUT after %.3f s' % (kind, T, dt)))
        finally:
            if kind == 'pty-trickle':
                c.close(force=True)
            else:
                c.proc.kill()
                c.proc.wait()
                c.proc.stdin.close()
                c.proc.stdout.close()
    elif kind in ('pty-partial-char', 'popen-partial-char'):
        # the first byte of a 4-byte character arrives late in the wait and nothing follows: no text was received,
        # the deadline stands
        code = ('import sys,os,time\nos.write(1, b"ready")\ntime.sleep(%f)\nos.write(1, b"\\xf0")\ntime.sleep(60)\n' % (0.85 * T))
        if kind == 'pty-partial-char':
            c = pexpect.spawn(sys.executable, ['-S', '-c', code], timeout=T, encoding='utf-8', use_poll=case.get('poll', False))
        else:
            from pexpect.popen_spawn import PopenSpawn
            c = PopenSpawn([sys.executable, '-S', '-c', code], timeout=T, encoding='utf-8')
        try:
            c.expect_exact('ready', timeout=20)
            r, e, dt = timed(lambda: c.expect_exact('never', timeout=case['Targ']))
            if type(e) is not TIMEOUT:
                bad.append(('real-foreign-outcome', '%s: %r %r' % (kind, r, e)))
            elif dt > T + 2.0:
                bad.append(('real-deadline-overrun', '%s T=%r, first byte of a character after %.2f s: took %.2f s' % (kind, T, 0.85 * T, dt)))
            elif dt < T - 0.02:
                bad.append(('real-early-timeout', '%s T=%r: TIMEOUT after %.3f s' % (kind, T, dt)))
        finally:
            if kind == 'pty-partial-char':
                c.close(force=True)
            else:
                c.proc.kill()
                c.proc.wait()
                c.proc.stdin.close()
                c.proc.stdout.close()
    elif kind == 'socket-silent':
        import socket
        from pexpect import socket_pexpect
        a, b = socket.socketpair()
        try:
            c = socket_pexpect.SocketSpawn(a, timeout=T)
            r, e, dt = timed(lambda: c.expect_exact(b'never', timeout=case['Targ']))
            if type(e) is not TIMEOUT:
                bad.append(('real-foreign-outcome', '%s: %r %r' % (kind, r, e)))
            elif dt > T + 2.0:
                bad.append(('real-deadline-overrun', '%s T=%r: took %.2f s' % (kind, T, dt)))
            elif dt < T - 0.02:
                bad.append(('real-early-timeout', '%s T=%r: TIMEOUT after %.3f s' % (kind, T, dt)))
        finally:
            a.close()
            b.close()
    elif kind == 'waitnoecho':
        L = Link('pty', timeout=T)
        try:
            c = L.child
            # the puppet is in raw mode (echo off): turn echo on first
            L.pup.set_echo(True)
            if case['off_after'] is not None:
                import threading
                th = threading.Timer(case['off_after'], lambda: L.pup.set_echo(False))
                th.start()
            r, e, dt = timed(lambda: c.waitnoecho(case['Targ']))
            if case['off_after'] is not None:
                th.join()
            if e is not None:
                bad.append(('real-waitnoecho-raises:' + type(e).__name__, 'waitnoecho(%r): %r' % (case['Targ'], e)))
            elif case['off_after'] is None:
                if r is not False or dt < T - 0.02 or dt > T + 2.0:
                    bad.append(('real-waitnoecho-bound', 'echo stays on, T=%r: returned %r after %.2f s' % (T, r, dt)))
            else:
                if r is not True or dt > case['off_after'] + 2.0:
                    bad.append(('real-waitnoecho-bound', 'echo off after %.2f s, T=%r: returned %r after %.2f s' % (
                        case['off_after'], T, r, dt)))
        finally:
            L.cleanup()
    elif kind == 'hangup-alive':
        # the child closes its terminal but stays alive for `life` seconds
        life = case['life']
        c = pexpect.spawn('/bin/sh', ['-c', 'exec 0<&- 1>&- 2>&-; sleep %g' % life], timeout=T)
        try:
            if case['fastpath']:
                time.sleep(0.4)          # the hang-up is already visible when expect starts
            r, e, dt = timed(lambda: c.expect_exact([b'never', EOF], timeout=case['Targ']))
            alive_after = proc_stat(c.pid)
            if e is not None and type(e) not in (TIMEOUT,):
                bad.append(('real-foreign-outcome', '%s: %r' % (kind, e)))
            elif dt > T + 1.0:
                mech = 'real-deadline-overrun'
                # classifier of the known finding: pty, peer hung up while alive, the over-run ends when the child exits
                spent = dt + (0.4 if case['fastpath'] else 0.0)
                if abs(spent - life) < 0.7:
                    mech = 'pty-hangup-while-alive-blocks-until-child-exits'
                bad.append((mech, 'child closed its terminal and stayed alive %.1f s; expect(timeout=%r) took %.2f s (%s)' % (
                    life, T, dt, 'hang-up seen in the fast path' if case['fastpath'] else 'hang-up seen during the timed wait')))
        finally:
            c.close(force=True)
    if bad and confirm:
        # flake discipline: re-run serially twice; report only what reproduces
        again = [real_case(case, acc, False), real_case(case, acc, False)]
        keep = [b for b in bad if all(any(b[0] == x[0] for x in a) for a in again)]
        if not keep:
            acc.count('flaky_unconfirmed')
        bad = keep
    return bad


def real_cases(spec, acc):
    signal.signal(signal.SIGHUP, signal.SIG_DFL)
    cases = []
    for T in ([0.5] if spec['tier'] == 'quick' else [0.3, 0.5, 1.0]):
        for gap in (0.1, 0.03):
            cases.append({'real': 'pty-trickle', 'T': T, 'Targ': T, 'gap': gap})
            cases.append({'real': 'pty-trickle', 'T': T, 'Targ': -1, 'gap': gap, 'poll': True})
            cases.append({'real': 'popen-trickle', 'T': T, 'Targ': T, 'gap': gap})
        cases.append({'real': 'socket-silent', 'T': T, 'Targ': T})
        cases.append({'real': 'socket-silent', 'T': T, 'Targ': -1})
        cases.append({'real': 'waitnoecho', 'T': T, 'Targ': T, 'off_after': None})
        cases.append({'real': 'waitnoecho', 'T': T, 'Targ': -1, 'off_after': None})
        cases.append({'real': 'waitnoecho', 'T': 5, 'Targ': None, 'off_after': 0.25})
        cases.append({'real': 'waitnoecho', 'T': 5, 'Targ': 5, 'off_after': 0.25})
        cases.append({'real': 'hangup-alive', 'T': T, 'Targ': T, 'life': 3.0, 'fastpath': True})
        cases.append({'real': 'hangup-alive', 'T': T, 'Targ': T, 'life': 3.0, 'fastpath': False})
    cases.append({'real': 'popen-partial-char', 'T': 3.0, 'Targ': 3.0})
    cases.append({'real': 'pty-partial-char', 'T': 3.0, 'Targ': -1})
    mine = [c for i, c in enumerate(cases) if i % spec['parts'] == spec['part']]
    for case in mine:
        acc.case()
        acc.count('real_cases')
        acc.seen('list:real_kinds', case['real'])
        try:
            bad = real_case(case, acc)
        except PeerError as e:
            acc.inconc('peer: %s' % e)
            continue
        for mech, detail in bad:
            acc.violation(mech, detail, case)
        acc.nontrivial('c05r', case)


def plan(tier, seed):
    n = 10000 if tier == 'quick' else 150000
    specs = [{'mode': 'virtual', 'n': b - a, 'shard': i, 'seed': seed, 'tier': tier}
             for i, (a, b) in enumerate(split_range(n, 12))]
    specs.append({'mode': 'waitnoecho', 'seed': seed, 'tier': tier})
    parts = 4
    for p in range(parts):
        specs.append({'mode': 'real', 'part': p, 'parts': parts, 'seed': seed, 'tier': tier})
    n, k = (160, 4) if tier == 'quick' else (3000, 12)
    for i, (a, b) in enumerate(split_range(n, k)):
        # awaited calls on one object and one event loop, each with a timeout of its own (0.05 .. 0.25 s): a call that
        # times out must do so at ITS deadline (checks/_async_model.py)
        specs.append({'mode': 'async-model', 'n': b - a, 'shard': 600 + i, 'seed': seed, 'tier': tier})
    return specs


def run_shard(spec, acc):
    if 'replay' in spec:
        c = spec['replay']
        if c.get('virtual'):
            c['sched'] = [tuple(e) for e in c['sched']]
            return virtual_case(c, acc)
        if c.get('wne'):
            return waitnoecho_case(c, acc)
        if 'calls' in c:
            from . import _async_model as AM
            return AM.run(spec, acc, 'awaited')
        acc.case()
        for mech, detail in real_case(c, acc):
            acc.violation(mech, detail, c)
        return
    m = spec['mode']
    if m == 'async-model':
        from . import _async_model as AM
        return AM.run(spec, acc, 'awaited')
    if m == 'virtual':
        rng = rng_for(spec['seed'], spec['shard'], 5)
        blocked = {}
        for _ in range(spec['n']):
            case = gen_virtual(rng)
            if blocked.get(case['transport'], 0) >= 2:
                continue
            t0 = time.time()
            virtual_case(case, acc)
            if time.time() - t0 > 3.0:
                # a call on virtual time that takes seconds of real time waits on something the virtual world does
                # not control (say, a blocking queue wait): the virtual schedules say nothing about such code - the
                # real-time companions have to decide for this transport
                blocked[case['transport']] = blocked.get(case['transport'], 0) + 1
                if blocked[case['transport']] == 2:
                    acc.inconc('virtual schedules do not apply to the %s transport as it is written now (calls block in '
                               'real time); only the real-time companions decide for it' % case['transport'])
            if acc.too_many():
                break
    elif m == 'waitnoecho':
        for T in (-1, None, 0, 0.3, 1.0, 0.05):
            for off in (None, 0, 0.15, 0.25, 0.5, 2.0, 9.0):
                for pos in (False, True):
                    waitnoecho_case({'wne': True, 'T': T, 'off_at': off, 'positional': pos}, acc)
    else:
        real_cases(spec, acc)
