"""C02 a reported match is genuine, leftmost, lowest-index: match postcondition."""
from . import _expect_common as X
from ..core.runner import split_range
from ..monitors.expect_oracles import match_post

ID = 'C02'
LEVEL = 'exploration'
RULE = ('same scripted histories as C01 with pattern lists biased to overlapping/prefix/duplicate entries and '
        'EOF/TIMEOUT at random list positions; postcondition evaluated at every successful engine-level call on '
        'X=before+after+buffer with an independent re.search/str.find per listed pattern. non-trivial = at '
        'least two listed patterns occur in the searched text; distinct by (pattern list, searched text, window). '
        'Companions: awaited calls on a pipe against the naive model (checks/_async_model.py) and, on the four real '
        'transports, every expect_exact / expect match must be the first occurrence in the text handed back '
        '(checks/_real_ledger.py)')
ASSUMPTIONS = ['re.search / str.find of the standard library are the definition of "occurs"',
               'window = slice of the last W characters of the pending text']
REQUIRED = ['postcond_evaluated', 'postcond_competing', 'async_model_calls', 'real_match_clauses']


def plan(tier, seed):
    specs = X.plan(tier, seed)
    n, k = (160, 4) if tier == 'quick' else (3000, 12)
    for i, (a, b) in enumerate(split_range(n, k)):
        # the asyncio read path against the naive model (index, before, after of every awaited call)
        specs.append({'gen': 'async-model', 'n': b - a, 'shard': 450 + i, 'seed': seed, 'tier': tier})
    n, k = (120, 4) if tier == 'quick' else (3000, 12)
    for i, (a, b) in enumerate(split_range(n, k)):
        # real transports: every reported match is the pattern's first occurrence in what was handed back
        specs.append({'gen': 'real-ledger', 'n': b - a, 'shard': 400 + i, 'seed': seed, 'tier': tier})
    return specs


def run_shard(spec, acc):
    spec = dict(spec, prop=ID)
    rp = spec.get('replay') if isinstance(spec.get('replay'), dict) else {}
    if spec.get('gen') == 'real-ledger' or rp.get('real'):
        from . import _real_ledger as RL
        return RL.run(spec, acc)
    if spec.get('gen') == 'async-model' or 'calls' in rp:
        from . import _async_model as AM
        return AM.run(spec, acc)
    X.drive(spec, acc, lambda run, acc: (lambda r, st: match_post(r, st, acc)))
