"""C02 a reported match is genuine, leftmost, lowest-index: match postcondition."""
from . import _expect_common as X
from ..monitors.expect_oracles import match_post

ID = 'C02'
LEVEL = 'exploration'
RULE = ('same scripted histories as C01 with pattern lists biased to overlapping/prefix/duplicate entries and '
        'EOF/TIMEOUT at random list positions; postcondition evaluated at every successful engine-level call on '
        'X=before+after+buffer with an independent re.search/str.find per listed pattern. non-trivial = at '
        'least two listed patterns occur in the searched text; distinct by (pattern list, searched text, window)')
ASSUMPTIONS = ['re.search / str.find of the standard library are the definition of "occurs"',
               'window = slice of the last W characters of the pending text']
REQUIRED = ['postcond_evaluated', 'postcond_competing']
plan = X.plan


def run_shard(spec, acc):
    spec = dict(spec, prop=ID)
    X.drive(spec, acc, lambda run, acc: (lambda r, st: match_post(r, st, acc)))
