"""C20 pattern forms: metamorphic equivalence of every accepted pattern form on
the scripted transport, flag honouring for pre-compiled patterns, and rejection
of other objects with TypeError before any output is consumed."""
import itertools
import re

import pexpect.expect
from pexpect import EOF, TIMEOUT

from ..core.runner import split_range
from ..hooks.vclock import VClock
from ..workloads.gen_expect import rng_for, rand_cuts
from ..workloads.scripted import Cursor, ScriptedSpawn, WouldBlockForever, conv_for

ID = 'C20'
LEVEL = 'exploration'
RULE = ('a pattern from a regex grammar (literals, classes, ., alternation, groups, * + ? {m,n}, escapes) and a '
        'scripted stream; the same script is run under each accepted form (native string; native compiled with '
        'DOTALL(+IGNORECASE); ASCII str given to a bytes-mode object; compiled pattern of the other string type; '
        'single vs one-element list; compile_pattern_list+expect_list; lists of 2-3 patterns in which every entry is given in a form of its own (string, ASCII str, compiled, compiled other type, own flags) against the same list fully compiled; expect_exact(literal) vs '
        'expect(re.escape(literal))) and (index|exception, before, after, pending, reads) must agree; for '
        'pre-compiled patterns every subset of {IGNORECASE, MULTILINE, VERBOSE, DOTALL, ASCII} is compared with '
        'the natively typed pattern compiled with the same flags; invalid objects must raise TypeError with the '
        'script position and pending text unchanged. non-trivial = the reference form matched after >=1 read and '
        'the text contains a newline or a case difference relevant to the flags; distinct by (pattern, flags, '
        'stream, splitting, mode)')
ASSUMPTIONS = ['scripted transport (H1); the re module defines what a flag means',
               'grammar avoids \\w-style classes whose meaning legitimately differs between str and bytes patterns']
REQUIRED = ['history_calls_compared', 'form_pairs_compared', 'flag_subsets_compared', 'mixed_form_lists', 'invalid_objects_rejected', 'dot_newline_cases',
            'ignorecase_cases', 'cross_type_compiled_cases', 'nonascii_compiled_other_type_cases']

FLAGS = [re.IGNORECASE, re.MULTILINE, re.VERBOSE, re.DOTALL, re.ASCII]
ATOMS = ['a', 'b', 'c', 'A', '.', '[ab]', '[^a]', r'\n', ' ', r'\.', r'\ ', 'ab', 'ba', '^', '$', '(?:a|b)',
         '(a)', '#', r'\#', 'B']
QUANT = ['', '', '', '*', '+', '?', '{1,2}', '*?', '+?']
TEXT = ['a', 'b', 'c', 'A', 'B', '\n', ' ', 'a', 'b', '.', '#']


def gen_regex(rng, depth=0):
    n = rng.randint(1, 3)
    parts = []
    for _ in range(n):
        a = rng.choice(ATOMS)
        if depth < 2 and rng.random() < 0.2:
            a = '(' + gen_regex(rng, depth + 1) + ')'
        q = rng.choice(QUANT) if a not in ('^', '$') else ''
        if a.startswith('(') and any(ch in a for ch in '*+{') and q not in ('', '?'):
            # no quantified group around a quantifier: the re module itself backtracks exponentially on those
            q = rng.choice(['', '?'])
        parts.append(a + q)
    s = ''.join(parts)
    if depth == 0 and rng.random() < 0.25:
        s = s + '|' + gen_regex(rng, 1)
    return s


def plan(tier, seed):
    n = 20000 if tier == 'quick' else 600000
    specs = [{'n': b - a, 'shard': i, 'seed': seed, 'tier': tier}
             for i, (a, b) in enumerate(split_range(n, 16))]
    return specs


class Result(object):
    def __init__(self, kind, index, before, after, buffer, pos, reads, exc):
        self.kind, self.index, self.before, self.after = kind, index, before, after
        self.buffer, self.pos, self.reads, self.exc = buffer, pos, reads, exc

    def key(self):
        # after a TIMEOUT the pending text is `before` (the search buffer may
        # legitimately have been trimmed to the look-back length)
        pending = self.before if self.kind == 'timeout' else self.buffer
        return (self.kind, self.index, self.before, self.after, pending, self.pos, self.reads)

    def __repr__(self):
        return 'Result(%s idx=%r before=%r after=%r buffer=%r pos=%r reads=%d exc=%r)' % (
            self.kind, self.index, self.before, self.after, self.buffer, self.pos, self.reads, self.exc)


def run_form(case, form):
    """form(child, conv) performs exactly one expect-family call."""
    enc = case['enc']
    conv = conv_for(enc)
    if enc is None and case.get('utf8'):
        conv = lambda s0: s0.encode('utf-8')          # (the child speaks UTF-8; the object is in bytes mode)
    clock = VClock()
    saved = pexpect.expect.time
    pexpect.expect.time = clock
    try:
        child = ScriptedSpawn(Cursor(case['script'], conv, 2000), clock, timeout=30,
                              encoding=enc, searchwindowsize=None)
        child.ignorecase = bool(case.get('ignorecase'))
        if case.get('prefill'):
            child.buffer = conv(case['prefill'])
        idx = exc = None
        try:
            idx = form(child, conv)
        except BaseException as e:
            exc = e
        if exc is None:
            kind = 'eof' if child.after is EOF else 'timeout' if child.after is TIMEOUT else 'match'
        elif type(exc) in (EOF, TIMEOUT):
            kind = type(exc).__name__.lower()
        elif isinstance(exc, WouldBlockForever):
            kind = 'hang'
        else:
            kind = 'error:' + type(exc).__name__
        after = child.after if not isinstance(child.after, type) else child.after.__name__
        return Result(kind, idx, child.before, after, child.buffer, child.cursor.position(),
                      child.nreads, exc)
    finally:
        pexpect.expect.time = saved


def other(s, enc):
    """The same pattern source in the other string type."""
    return s if enc is None else s.encode('ascii')


def nonascii_case(case, acc):
    """a compiled regex of the other string type whose text is not ASCII: equivalent to the native pattern (the
    text is carried over as UTF-8, the flags unchanged)"""
    acc.case()
    acc.count('nonascii_compiled_other_type_cases')
    enc, src, fl = case['enc'], case['src'], case['flags']
    nat = re.compile(src.encode('utf-8') if enc is None else src, fl)
    oth = re.compile(src if enc is None else src.encode('utf-8'), fl)
    ref = run_form(case, lambda c, conv: c.expect(nat))
    if ref.kind.startswith('error'):
        acc.violation('native-form-raises', 'pattern %r: %r' % (src, ref), case)
        return
    for nm, form in (('compiled-other-string-type', lambda c, conv: c.expect(oth)),
                     ('compiled-other-string-type-in-list', lambda c, conv: c.expect([oth, EOF])),
                     ('compiled-other-string-type-expect_list', lambda c, conv: c.expect_list(c.compile_pattern_list([oth, EOF])))):
        got = run_form(case, form)
        want = ref
        if nm != 'compiled-other-string-type':
            want = run_form(case, lambda c, conv: c.expect([nat, EOF]))
        acc.count('form_pairs_compared')
        if want.key() != got.key():
            acc.violation('form-' + nm + '-differs', 'non-ASCII pattern %r flags=%d mode=%s: native %r; %s %r' % (
                src, fl, enc or 'bytes', want, nm, got), case)
            return
    if ref.kind == 'match':
        acc.nontrivial('c20n', src, fl, case['script'], enc)


def history_case(case, acc):
    """One object, several calls, ignorecase changed between calls, pattern strings repeated: every call must
    behave like the natively compiled pattern with the flags in force at that moment (twin object)."""
    acc.case()
    acc.count('history_cases')
    enc = case['enc']
    conv = conv_for(enc)
    res = []
    for twin in (0, 1):
        clock = VClock()
        saved = pexpect.expect.time
        pexpect.expect.time = clock
        try:
            child = ScriptedSpawn(Cursor(case['script'], conv, 2000), clock, timeout=30, encoding=enc)
            out = []
            kept = {}
            for ic, src, form in case['calls']:
                child.ignorecase = ic
                fl = re.DOTALL | (re.IGNORECASE if ic else 0)
                try:
                    if twin == 1:
                        pat = re.compile(conv(src), fl)
                        idx = child.expect([pat, TIMEOUT], timeout=0)
                    elif form == 'str':
                        idx = child.expect([conv(src), TIMEOUT], timeout=0)
                    elif form == 'kept':
                        # the caller wrote the list once and passes the same object every time
                        idx = child.expect(kept.setdefault(src, [conv(src), TIMEOUT]), timeout=0)
                    elif form == 'single':
                        idx = child.expect(conv(src), timeout=0)
                    elif form == 'cpl':
                        idx = child.expect_list(child.compile_pattern_list([conv(src), TIMEOUT]), timeout=0)
                    else:
                        idx = child.expect([src, TIMEOUT] if enc is None else [conv(src), TIMEOUT], timeout=0)
                    kind = 'timeout' if child.after is TIMEOUT else 'match'
                except TIMEOUT:
                    idx, kind = None, 'timeout'
                except Exception as e:
                    idx, kind = None, 'error:' + type(e).__name__
                after = child.after if not isinstance(child.after, type) else child.after.__name__
                out.append((kind, child.before, after, child.before if kind == 'timeout' else child.buffer))
            res.append(out)
        finally:
            pexpect.expect.time = saved
    for k, (a, b) in enumerate(zip(res[0], res[1])):
        acc.count('history_calls_compared')
        if a != b:
            acc.violation('pattern-string-form-depends-on-history',
                          'call #%d %r on one object (ignorecase per call: %r): string form %r, compiled equivalent %r' % (
                              k, case['calls'][k], [c[0] for c in case['calls']], a, b), case)
            return
    if len(set(c[0] for c in case['calls'])) > 1 and len(set(c[1] for c in case['calls'])) < len(case['calls']):
        acc.nontrivial('c20h', case)


def gen_history(rng):
    srcs = [rng.choice(['hello', 'a', 'b+', 'wor.d', 'A', '[ab]c']) for _ in range(2)]
    text = ''.join(rng.choice(['hello ', 'HELLO ', 'a', 'A', 'b', 'B', 'world ', 'WOR\nD ', 'ac', 'AC', 'c']) for _ in range(rng.randint(2, 8)))
    script = [['d', p] for p in rand_cuts(rng, text, 3)]
    calls = []
    for _ in range(rng.randint(2, 6)):
        calls.append([rng.random() < 0.5, rng.choice(srcs), rng.choice(['str', 'single', 'cpl', 'ascii', 'kept', 'kept'])])
    return {'history': True, 'enc': rng.choice([None, 'utf-8']), 'script': script, 'calls': calls}


def run_shard(spec, acc):
    if 'replay' in spec:
        if spec['replay'].get('history'):
            return history_case(spec['replay'], acc)
        if spec['replay'].get('nonascii'):
            return nonascii_case(spec['replay'], acc)
        return one_case(spec['replay'], acc)
    rng = rng_for(spec['seed'], spec['shard'], 20)
    for k in range(spec['n']):
        src = gen_regex(rng)
        try:
            re.compile(src)
            re.compile(src.encode('ascii'))
        except re.error:
            continue
        text = ''.join(rng.choice(TEXT) for _ in range(rng.randint(0, 12)))
        script = [['d', p] for p in rand_cuts(rng, text, 4)]
        if rng.random() < 0.7:
            script.append(['e'])
        fl = 0
        for f in FLAGS:
            if rng.random() < 0.3:
                fl |= int(f)
        case = {'enc': rng.choice([None, 'utf-8']), 'script': script, 'src': src,
                'ignorecase': rng.random() < 0.3, 'flags': fl,
                'lit': ''.join(rng.choice(TEXT + ['*', '(', '\\', '+']) for _ in range(rng.randint(1, 3) if rng.random() < 0.92 else 0)),
                'prefill': ''.join(rng.choice(TEXT) for _ in range(rng.randint(0, 3))) if rng.random() < 0.3 else '',
                'bad': rng.randrange(len(BAD))}
        if rng.random() < 0.5:
            ents = []
            for _ in range(rng.randint(2, 3)):
                s_i = gen_regex(rng)
                f_i = None
                if rng.random() < 0.45:
                    f_i = 0
                    for f in FLAGS:
                        if rng.random() < 0.3:
                            f_i |= int(f)
                try:
                    re.compile(s_i, f_i or 0)
                    re.compile(s_i.encode('ascii'), (f_i or 0) & ~int(re.UNICODE))
                except (re.error, ValueError):
                    continue
                ents.append({'src': s_i, 'flags': f_i, 'form': rng.choice(['str', 'str', 'ascii', 'compiled', 'other'])})
            if len(ents) >= 2:
                case['list'] = ents
                case['list_markers'] = [[rng.randint(0, 3), rng.choice(['EOF', 'TIMEOUT'])]] if rng.random() < 0.4 else []
        one_case(case, acc)
        if acc.evaluations <= 3:
            acc.sample(case)
        if k % 4 == 0:
            history_case(gen_history(rng), acc)
        if k % 5 == 0:
            lits = ['caf\xe9', '\xe9', 'stra\xdfe', 'a\u20acb', '\u65e5\u672c']
            lit = rng.choice(lits)
            srcn = rng.choice([lit, lit + '+', '[ab]' + lit, lit + '.', '(' + lit + '|b)', lit.upper()])
            textn = ''.join(rng.choice(['a', 'b', '\n', ' ', lit, lit, lit.upper(), '\xe9']) for _ in range(rng.randint(1, 6)))
            fln = 0
            for f in (re.IGNORECASE, re.MULTILINE, re.DOTALL):
                if rng.random() < 0.3:
                    fln |= int(f)
            nonascii_case({'enc': rng.choice([None, 'utf-8']), 'utf8': True, 'src': srcn, 'flags': fln,
                           'script': [['d', p] for p in rand_cuts(rng, textn, 3)] + [['e']], 'nonascii': True}, acc)


def compare(acc, case, name, ref, got):
    acc.count('form_pairs_compared')
    if ref.key() != got.key():
        acc.violation('form-' + name + '-differs',
                      'pattern %r flags=%d ignorecase=%r mode=%s: native %r; %s %r' % (
                          case['src'], case['flags'], case.get('ignorecase'), case['enc'] or 'bytes',
                          ref, name, got), case)
        return False
    return True


BAD = ['int', 'float', 'none-in-list', 'nested-list', 'tuple', 'wrong-string-type', 'int-in-list', 'object',
       'exact-int', 'exact-none-in-list', 'exact-compiled', 'exact-wrong-string-type',
       'zero', 'zero-float', 'false', 'empty-dict', 'empty-bytearray', 'exact-zero', 'exact-zero-float', 'exact-false',
       'list-zero', 'exact-empty-wrong-string-type']


def bad_object(name, conv, enc):
    wrong = b'a' if enc else None
    return {
        'int': ('expect', 5), 'float': ('expect', 1.5), 'none-in-list': ('expect', [conv('a'), None]),
        'nested-list': ('expect', [[conv('a')]]), 'tuple': ('expect', (conv('a'), conv('b'))),
        'wrong-string-type': ('expect', wrong), 'int-in-list': ('list', [conv('a'), 7]),
        'object': ('list', [object()]),
        'exact-int': ('exact', 5), 'exact-none-in-list': ('exact', [conv('a'), None]),
        'exact-compiled': ('exact', [re.compile(conv('a'))]),
        'exact-wrong-string-type': ('exact', wrong),
        # objects that are false in a boolean context are objects like any other
        'zero': ('expect', 0), 'zero-float': ('expect', 0.0), 'false': ('expect', False), 'empty-dict': ('expect', {}),
        'empty-bytearray': ('expect', bytearray()), 'exact-zero': ('exact', 0), 'exact-zero-float': ('exact', 0.0),
        'exact-false': ('exact', False), 'list-zero': ('list', 0),
        'exact-empty-wrong-string-type': ('exact', b'' if enc else None),
    }[name]


def one_case(case, acc):
    acc.case()
    enc = case['enc']
    src = case['src']
    ic = bool(case.get('ignorecase'))
    text = ''.join(e[1] for e in case['script'] if e[0] == 'd') + case.get('prefill', '')

    native_flags = re.DOTALL | (re.IGNORECASE if ic else 0)
    ref = run_form(case, lambda c, conv: c.expect(conv(src)))
    if ref.kind.startswith('error'):
        acc.violation('native-form-raises', 'pattern %r: %r' % (src, ref), case)
        return
    # the documented compile flags: '.' matches newline, ignorecase honoured
    f1 = run_form(case, lambda c, conv: c.expect(re.compile(conv(src), native_flags)))
    compare(acc, case, 'compiled-with-DOTALL', ref, f1)
    if '\n' in text and '.' in src.replace(r'\.', ''):
        acc.count('dot_newline_cases')
    if ic and text.lower() != text.upper():
        acc.count('ignorecase_cases')
    if enc is None:
        f2 = run_form(case, lambda c, conv: c.expect(src))           # ASCII str to bytes-mode object
        compare(acc, case, 'ascii-str-in-bytes-mode', ref, f2)
    f4 = run_form(case, lambda c, conv: c.expect([conv(src)]))
    compare(acc, case, 'one-element-list', ref, f4)
    f5 = run_form(case, lambda c, conv: c.expect_list(c.compile_pattern_list(conv(src))))
    compare(acc, case, 'compile_pattern_list', ref, f5)
    f5b = run_form(case, lambda c, conv: c.expect_list(c.compile_pattern_list([conv(src)])))
    compare(acc, case, 'compile_pattern_list', ref, f5b)
    # compiled pattern of the other string type, documented flags
    f3 = run_form(case, lambda c, conv: c.expect(re.compile(other(src, enc) if enc else src, native_flags)))
    acc.count('cross_type_compiled_cases')
    compare(acc, case, 'compiled-other-string-type', ref, f3)

    # pre-compiled with its own flags: native type vs other type (ignorecase attr must not matter)
    fl = case['flags']
    if fl:
        try:
            if enc is None:
                nat = re.compile(src.encode('ascii'), fl)
                oth = re.compile(src, fl)
            else:
                nat = re.compile(src, fl)
                oth = re.compile(src.encode('ascii'), fl)
        except (re.error, ValueError):
            nat = None
        if nat is not None:
            acc.count('flag_subsets_compared')
            acc.seen('flag_subset', fl)
            r1 = run_form(case, lambda c, conv: c.expect(nat))
            r2 = run_form(case, lambda c, conv: c.expect(oth))
            if compare(acc, case, 'precompiled-other-type-own-flags', r1, r2) and r1.kind == 'match':
                # the flags are honoured at all: compare against an independent re.search
                pass
            # own flags honoured for the native type: independent search on the final text
            chk_native_flags(acc, case, nat, r1, text)

    # lists that mix the forms: every entry given as a string stands for "compiled with the documented flags",
    # whatever stands before or after it in the list; a pre-compiled entry keeps its own flags
    if case.get('list'):
        acc.count('mixed_form_lists')

        def build(c, conv, variant):
            out = []
            for ent in case['list']:
                src_i, fl_i, form_i = ent['src'], ent['flags'], ent['form']
                if variant and fl_i is None and form_i == 'str':
                    out.append(conv(src_i))
                elif variant and fl_i is None and form_i == 'ascii' and enc is None:
                    out.append(src_i)
                elif variant and form_i == 'other':
                    out.append(re.compile(other(src_i, enc) if enc else src_i, native_flags if fl_i is None else fl_i))
                else:
                    out.append(re.compile(conv(src_i), native_flags if fl_i is None else fl_i))
            for pos, m in case.get('list_markers', []):
                out.insert(min(pos, len(out)), EOF if m == 'EOF' else TIMEOUT)
            return out
        lref = run_form(case, lambda c, conv: c.expect(build(c, conv, False)))
        l1 = run_form(case, lambda c, conv: c.expect(build(c, conv, True)))
        l2 = run_form(case, lambda c, conv: c.expect_list(c.compile_pattern_list(build(c, conv, True))))
        for nm, got in (('mixed-list', l1), ('mixed-list-compile_pattern_list', l2)):
            acc.count('form_pairs_compared')
            if lref.key() != got.key():
                acc.violation('form-' + nm + '-differs', 'list %r markers %r ignorecase=%r mode=%s: all entries compiled %r; mixed forms %r' % (
                    case['list'], case.get('list_markers'), ic, enc or 'bytes', lref, got), case)
                break

    # expect_exact(literal) vs expect(re.escape(literal))
    lit = case['lit']
    e1 = run_form(case, lambda c, conv: c.expect_exact(conv(lit)))
    e2 = run_form(case, lambda c, conv: c.expect(re.compile(re.escape(conv(lit)))))
    compare(acc, case, 'exact-vs-escaped-regex', e2, e1)
    e3 = run_form(case, lambda c, conv: c.expect_exact([conv(lit)]))
    compare(acc, case, 'exact-one-element-list', e1, e3)
    if enc is None:
        e4 = run_form(case, lambda c, conv: c.expect_exact(lit))
        compare(acc, case, 'exact-ascii-str-in-bytes-mode', e1, e4)

    # invalid objects
    bname = BAD[case['bad']]
    conv = conv_for(enc)
    how, obj = bad_object(bname, conv, enc)
    if obj is not None:
        def form(c, conv):
            form.before = (c.buffer, c.before, c.cursor.position())
            if how == 'exact':
                return c.expect_exact(obj)
            if how == 'list':
                return c.expect_list(c.compile_pattern_list(obj))
            return c.expect(obj)
        rb = run_form(case, form)
        acc.seen('list:invalid_kinds', bname)
        if not isinstance(rb.exc, TypeError):
            acc.violation('invalid-object-not-TypeError',
                          '%s -> %r' % (bname, rb), case)
        elif rb.reads != 0 or rb.pos != (0, 0, False) or rb.buffer != conv(case.get('prefill', '')):
            acc.violation('invalid-object-consumed-output', '%s -> %r' % (bname, rb), case)
        else:
            acc.count('invalid_objects_rejected')

    if ref.kind == 'match' and ref.reads >= 1 and ('\n' in text or ic or fl):
        acc.nontrivial('c20', src, fl, ic, case['script'], enc)


def chk_native_flags(acc, case, pat, r, text):
    """A pre-compiled pattern keeps its own flags (not DOTALL/ignorecase of the
    object): its outcome must equal a plain re.search with that very object on
    the text available when the call ended."""
    conv = conv_for(case['enc'])
    if r.kind != 'match':
        if r.kind in ('eof', 'timeout'):
            if pat.search(r.before) is not None:
                acc.violation('precompiled-flags-not-honoured', 'pattern %r flags %d matches %r but call ended %s' % (
                    pat.pattern, pat.flags, r.before, r.kind), case)
        return
    X = r.before + r.after + r.buffer
    m = pat.search(X)
    if m is None or m.start() != len(r.before) or m.group(0) != r.after:
        # an earlier read boundary may legitimately give an earlier/shorter match: compare on the prefix
        # that was available: before+after+buffer is exactly that text
        acc.violation('precompiled-flags-not-honoured', 'pattern %r flags %d on %r: re.search gives %r, call gave before=%r after=%r' % (
            pat.pattern, pat.flags, X, m and m.span(), r.before, r.after), case)
