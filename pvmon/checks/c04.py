"""C04 EOF/TIMEOUT outcomes: outcome-shape monitor on scripted histories, on the
four real transports (sticky EOF, marker listed / not listed, timeout 0) and on
the object states in which the diagnostic message is built."""
import time

import pexpect
from pexpect import EOF, TIMEOUT

from . import _expect_common as X
from ..core.runner import split_range
from ..monitors.expect_oracles import outcome_shape
from ..workloads.transports import Link
from ..workloads.puppetctl import PeerError

ID = 'C04'
LEVEL = 'exploration'
RULE = ('(a) scripted histories as C01 with EOF/TIMEOUT markers absent/first/middle/last/both at random list '
        'positions over expect/expect_exact/expect_list/expect_loop/read/readline; every engine-level call that '
        'ends in EOF/TIMEOUT is judged (listed -> index, else exactly that class; before = all pending; after = '
        'marker class; pending occurrence wins, also with timeout 0 / negative). (b) the same clauses on the real '
        'pty / fd / pipe / socket / popen transports incl. two further calls after the first EOF (must report EOF '
        'again within 1 s of a 5 s timeout). (c) diagnostic message built in every object state. non-trivial = '
        'marker outcome with non-empty pending text or with the marker listed among text patterns; distinct by '
        '(case, call position)')
ASSUMPTIONS = ['scripted transport for (a); models/expect_ref.py gives "all pending text" and "occurrence present"',
               'real-transport part uses a 1 s bound on a call made after EOF with a 5 s timeout (load margin 5x)']
REQUIRED = ['partial_character_reads', 'marker_outcomes', 'marker_listed', 'marker_unlisted', 'pending_occurrence_checks',
            'calls_after_eof_report_eof', 'real_transport_cases', 'diagnostic_states']


def plan(tier, seed):
    specs = X.plan(tier, seed)
    reps = 2 if tier == 'quick' else 12
    for i in range(reps):
        for kind in ('pipe', 'fd', 'socket', 'popen', 'pty'):
            specs.append({'gen': 'real', 'rep': i, 'kind': kind, 'seed': seed, 'tier': tier})
    specs.append({'gen': 'diag', 'seed': seed, 'tier': tier})
    n, k = (160, 4) if tier == 'quick' else (3000, 12)
    for i, (a, b) in enumerate(split_range(n, k)):
        # awaited calls against the naive model: EOF / TIMEOUT listed -> index, else raised; before = all pending
        specs.append({'gen': 'async-model', 'n': b - a, 'shard': 450 + i, 'seed': seed, 'tier': tier})
    return specs


def run_shard(spec, acc):
    if 'replay' in spec:
        c = spec['replay']
        if isinstance(c, dict) and c.get('real'):
            return real_case(c, acc)
        if isinstance(c, dict) and c.get('diag'):
            return diag_cases(acc)
        if isinstance(c, dict) and 'calls' in c:
            from . import _async_model as AM
            return AM.run(spec, acc)
    g = spec.get('gen')
    if g == 'async-model':
        from . import _async_model as AM
        return AM.run(spec, acc)
    if g == 'real':
        return real_cases(spec, acc)
    if g == 'diag':
        return diag_cases(acc)
    X.drive(dict(spec, prop=ID), acc, lambda run, acc: (lambda r, st: outcome_shape(r, st, acc)))


# --------------------------------------------------------------- real part

def outcome(child, fn):
    t0 = time.time()
    try:
        r = fn()
        exc = None
    except BaseException as e:
        r, exc = None, e
    return r, exc, time.time() - t0


def real_cases(spec, acc):
    for kind in ([spec['kind']] if spec.get('kind') else ('pipe', 'fd', 'socket', 'popen', 'pty')):
        for enc in (None, 'utf-8'):
            for listed in (False, True):
                for entry in ('expect', 'expect_exact', 'expect_list'):
                    # (every other repetition with reads far smaller than what is waiting: the transports then hold
                    # text of their own between calls)
                    case = {'real': True, 'kind': kind, 'enc': enc, 'listed': listed, 'entry': entry,
                            'poll': bool(spec['rep'] % 2), 'maxread': [2000, 3, 2000, 1][spec['rep'] % 4]}
                    acc.case()
                    try:
                        real_case(case, acc)
                    except PeerError as e:
                        acc.inconc('peer: %s' % e)
                    if acc.evaluations <= 2:
                        acc.sample(case)


def call(child, entry, pats, timeout):
    if entry == 'expect':
        return child.expect(pats, timeout=timeout)
    if entry == 'expect_exact':
        return child.expect_exact(pats, timeout=timeout)
    return child.expect_list(child.compile_pattern_list(pats), timeout=timeout)


def real_case(case, acc):
    kind, enc, listed, entry = case['kind'], case['enc'], case['listed'], case['entry']
    kw = {'timeout': 5, 'encoding': enc, 'maxread': case.get('maxread', 2000)}
    if kind in ('pipe', 'fd', 'socket', 'pty') and case.get('poll'):
        kw['use_poll'] = True
    L = Link(kind, **kw)
    c = L.child
    T = (lambda s: s) if enc else (lambda s: s.encode('ascii'))
    bad = []

    def v(mech, detail):
        bad.append(mech)
        acc.violation(mech, '%s/%s/%s: %s' % (kind, entry, 'listed' if listed else 'unlisted', detail), case)
    try:
        acc.count('real_transport_cases')
        L.peer_write(b'hello world')
        # 1. timeout 0 with an occurrence immediately readable
        time.sleep(0.05 if kind == 'popen' else 0.0)
        # (with reads of 1-3 characters one immediate read cannot hold the occurrence: the clause is about timeout 0
        # only when a single read can deliver it)
        t_first = 0 if case.get('maxread', 2000) >= 100 else 5
        r, exc, dt = outcome(c, lambda: call(c, entry, [T('zzz'), T('hello')] + ([TIMEOUT] if listed else []), t_first))
        if kind == 'popen' and (exc is not None or r != 1):
            # the reader thread may not have queued the data yet: not "immediately readable"
            acc.count('popen_timeout0_not_yet_queued')
            r2, exc2, _ = outcome(c, lambda: call(c, entry, [T('zzz'), T('hello')], 5))
            if exc2 is not None or r2 != 1:
                v('real-occurrence-not-found', 'second attempt %r %r' % (r2, exc2))
        elif exc is not None or r != 1:
            v('timeout0-ignores-readable-occurrence', 'timeout=0 with b"hello" readable -> %r %r' % (r, exc))
        acc.count('pending_occurrence_checks')
        # 2. TIMEOUT while the peer is silent
        pats = [T('zzz')] + ([TIMEOUT, EOF] if listed else [])
        # (with reads of 1-3 characters the rest of what the peer wrote takes several reads: the call must have the time
        # to make them even when the machine stalls for a moment - text that has not been read yet is not pending text)
        t2 = 0.15 if case.get('maxread', 2000) >= 100 else 2.0
        r, exc, dt = outcome(c, lambda: call(c, entry, pats, t2))
        acc.count('marker_outcomes')
        judge(v, c, r, exc, TIMEOUT, listed, 1, T(' world'), 'silent peer, timeout %g' % t2)
        # 2b. an empty pattern list ("just wait"): the time runs out -> exactly TIMEOUT, whatever it takes to say so
        r, exc, dt = outcome(c, lambda: call(c, entry, [], 0.05))
        acc.count('marker_outcomes')
        acc.count('empty_pattern_lists')
        if type(exc) is not TIMEOUT:
            v('foreign-exception' if exc is not None and not isinstance(exc, (EOF, TIMEOUT)) else 'wrong-exception-class',
              'empty pattern list, silent peer, timeout 0.05: %r %r' % (r, exc))
        elif c.before != T(' world') or c.after is not TIMEOUT:
            v('before-not-all-pending', 'empty pattern list: before=%r after=%r' % (c.before, c.after))
        # 3. timeout 0 with nothing readable
        r, exc, dt = outcome(c, lambda: call(c, entry, pats, 0))
        acc.count('marker_outcomes')
        judge(v, c, r, exc, TIMEOUT, listed, 1, T(' world'), 'timeout 0, nothing readable')
        tail = ' worldtail'
        if enc:
            # 3b. a read that delivers only part of a multi-byte character is not the end of the stream
            L.peer_write(b'\xe2\x82')
            if kind == 'popen':
                time.sleep(0.05)
            r, exc, dt = outcome(c, lambda: call(c, entry, pats, 0.15))
            acc.count('marker_outcomes')
            acc.count('partial_character_reads')
            judge(v, c, r, exc, TIMEOUT, listed, 1, T(' world'), 'peer connected, half a character arrived')
            L.peer_write(b'\xac')
            tail = ' world\u20actail'
        # 4. EOF (the last piece is many times the size of one read when maxread is tiny)
        last = 'tail' + ('-more' * 12 if case.get('maxread', 2000) < 100 else '')
        tail = tail[:-4] + last
        L.peer_write(last.encode('ascii'))
        L.peer_close()
        pats = [T('zzz')] + ([TIMEOUT, EOF] if listed else [])
        r, exc, dt = outcome(c, lambda: call(c, entry, pats, 5))
        acc.count('marker_outcomes')
        judge(v, c, r, exc, EOF, listed, 2, T(tail), 'peer closed')
        if c.buffer != T(''):
            v('eof-pending-not-cleared', 'buffer=%r' % (c.buffer,))
        # 5. sticky EOF: two further calls
        for k in range(2):
            r, exc, dt = outcome(c, lambda: call(c, entry, pats, 5))
            acc.count('marker_outcomes')
            acc.count('calls_after_eof_report_eof')
            judge(v, c, r, exc, EOF, listed, 2, T(''), 'call #%d after EOF' % (k + 2))
            if dt > 1.0:
                v('call-after-eof-blocks', 'call #%d after EOF took %.2fs' % (k + 2, dt))
        # 6. and with an empty pattern list after the end of the stream: exactly EOF
        r, exc, dt = outcome(c, lambda: call(c, entry, [], 5))
        acc.count('empty_pattern_lists')
        if type(exc) is not EOF:
            v('foreign-exception' if exc is not None and not isinstance(exc, (EOF, TIMEOUT)) else 'wrong-exception-class',
              'empty pattern list after EOF: %r %r' % (r, exc))
        if listed:
            acc.count('marker_listed')
        else:
            acc.count('marker_unlisted')
        acc.nontrivial('c04real', case)
    finally:
        L.cleanup()


def judge(v, c, r, exc, cls, listed, idx, before, what):
    name = cls.__name__
    if listed:
        if exc is not None:
            v('listed-marker-raised' if type(exc) is cls else 'foreign-exception',
              '%s: %s listed but %s: %s raised' % (what, name, type(exc).__name__, str(exc)[:80]))
            return
        if r != idx:
            v('marker-wrong-index', '%s: returned %r, %s is at %d' % (what, r, name, idx))
        if c.match is not cls or c.match_index != r:
            v('marker-match-attr', '%s: match=%r match_index=%r' % (what, c.match, c.match_index))
    else:
        if exc is None:
            v('unlisted-marker-returned', '%s: returned %r' % (what, r))
            return
        if type(exc) is not cls:
            v('foreign-exception' if not isinstance(exc, (EOF, TIMEOUT)) else 'wrong-exception-class',
              '%s: %s: %s raised, expected %s' % (what, type(exc).__name__, str(exc)[:80], name))
            return
        if c.match is not None or c.match_index is not None:
            v('marker-match-attr', '%s: match=%r match_index=%r after raising' % (what, c.match, c.match_index))
    if c.after is not cls:
        v('after-not-marker', '%s: after=%r' % (what, c.after))
    if c.before != before:
        v('before-not-all-pending', '%s: before=%r, pending was %r' % (what, c.before, before))


# ---------------------------------------------------------- diagnostics part

def diag_cases(acc):
    """The EOF/TIMEOUT message (str(spawn) + searcher) must be buildable in
    every object state: no exception other than EOF/TIMEOUT may escape."""
    import os
    from pexpect import pxssh, fdpexpect, popen_spawn, socket_pexpect
    import socket as socketmod
    import sys

    def attempt(name, child, enc):
        T = (lambda s: s) if enc else (lambda s: s.encode('ascii'))
        for listed in (False, True):
            for entry in ('expect', 'expect_exact', 'expect_list'):
                acc.case()
                acc.count('diagnostic_states')
                case = {'diag': True, 'state': name, 'listed': listed, 'entry': entry, 'enc': enc}
                pats = [T('zzz')] + ([TIMEOUT] if listed else [])
                r, exc, dt = outcome(child, lambda: call(child, entry, pats, -5))
                if listed:
                    ok = exc is None and r == 1
                else:
                    ok = type(exc) is TIMEOUT
                if ok and exc is not None:
                    try:
                        s = str(exc)
                        ok = 'searcher' in s
                    except Exception as e2:
                        ok, exc = False, e2
                if not ok:
                    acc.violation('diagnostic-message-raises' if exc is not None and not isinstance(exc, (EOF, TIMEOUT))
                                  else 'diagnostic-outcome-wrong',
                                  'state %s, %s, %s: returned %r raised %r' % (
                                      name, entry, 'listed' if listed else 'unlisted', r, exc), case)
                acc.nontrivial('c04diag', case)
        try:
            s = str(child)
            assert isinstance(s, str)
            acc.count('str_of_object_built')
        except Exception as e:
            acc.violation('diagnostic-message-raises', 'str(%s) raised %r' % (name, e), {'diag': True, 'state': name})

    for enc in (None, 'utf-8'):
        # before login
        p = pxssh.pxssh(encoding=enc)
        attempt('pxssh-before-login', p, enc)
        # factory-incomplete spawn
        p = pexpect.spawn(None, encoding=enc)
        attempt('spawn-no-command', p, enc)
        # spawned, running
        p = pexpect.spawn('/bin/cat', encoding=enc, echo=False)
        attempt('pty-running', p, enc)
        p.sendline('x')
        p.expect('x')
        attempt('pty-after-match', p, enc)
        p.sendeof()
        p.expect(EOF)
        attempt('pty-after-eof', p, enc)
        p.close()
        attempt('pty-after-close', p, enc)
        # fd
        r, w = os.pipe()
        f = fdpexpect.fdspawn(r, encoding=enc)
        attempt('fd-open', f, enc)
        os.close(w)
        try:
            f.expect(EOF, timeout=2)
        except Exception:
            pass
        attempt('fd-after-eof', f, enc)
        f.close()
        attempt('fd-after-close', f, enc)
        # socket
        a, b = socketmod.socketpair()
        s = socket_pexpect.SocketSpawn(a, encoding=enc)
        attempt('socket-open', s, enc)
        s.close()
        attempt('socket-after-close', s, enc)
        b.close()
        # popen
        pp = popen_spawn.PopenSpawn([sys.executable, '-S', '-c', 'print(1)'], encoding=enc)
        attempt('popen-running', pp, enc)
        try:
            pp.expect(EOF, timeout=5)
        except Exception:
            pass
        attempt('popen-after-eof', pp, enc)
        pp.wait()
        pp.proc.stdin.close()
        pp.proc.stdout.close()
