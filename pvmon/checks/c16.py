"""C16 REPLWrapper: each command returns exactly its own output."""
import asyncio
import os
import signal
import sys

import pexpect
from pexpect import replwrap

from ..core.runner import split_range
from ..core.watchdog import watchdog, CaseTimeout
from ..core.acc import confirmed
from ..workloads.gen_expect import rng_for

ID = 'C16'
LEVEL = 'exploration'
PAR = 8
RULE = ('random sequences of 5..40 commands per REPL instance (bash and python, blocking and awaited form) drawn from a family '
        'whose output is known by construction: unique-id payloads of 0..300 KB with/without final newline, no-output commands, '
        'outputs whose edges are white space (empty first lines, only empty lines, leading/trailing blanks), non-ASCII outputs '
        '(tokens of mixed encoded lengths repeated up to 30000 times, so that read boundaries fall inside characters), '
        'multi-line blocks, two commands in one call, trailing newline, state carried between commands, incomplete constructs in '
        'between (must raise ValueError and leave the next command undisturbed). run_command must return exactly the expected '
        'text (LF -> CRLF by the pty). non-trivial = sequence containing a multi-line block or an incomplete construct or an '
        'output >= 64 KB, followed by at least one more command; distinct by case')
ASSUMPTIONS = ['expected outputs are computed by the generator; the pty turns LF into CRLF',
               'a violation is reported only if it reproduces in two further serial runs (replwrap contains hard-coded 1 s waits)',
               'zsh is not installed: not exercised']
REQUIRED = ['sequences', 'commands', 'bash_commands', 'python_commands', 'async_commands', 'incomplete_inputs',
            'large_outputs', 'multiline_blocks', 'non_ascii_outputs', 'non_ascii_outputs_awaited']


def uid(rng):
    return 'id' + ''.join(rng.choice('abcdefghijkmnpqrstuvwxyz0123456789') for _ in range(8))


# line ends between the complete commands of one call: LF mostly, and the others str.splitlines() documents
LINE_ENDS = ['\n', '\n', '\r\n', '\r', '\r', '\x0c', u'\u2028']


def gen_bash(rng):
    r = rng.random()
    u = uid(rng)
    if r < 0.08:
        # output whose edges are white space: first line(s) empty, only empty lines, leading/trailing blanks
        return rng.choice([
            ('echo', '\r\n', 'edge'),
            ("printf '\\n%%s\\n' %s" % u, '\r\n%s\r\n' % u, 'edge'),
            ('echo; echo %s' % u, '\r\n%s\r\n' % u, 'edge'),
            ("printf '\\n\\n'", '\r\n\r\n', 'edge'),
            ("printf '%%s\\n\\n\\n' %s" % u, '%s\r\n\r\n\r\n' % u, 'edge'),
            ("printf '  %%s  ' %s" % u, '  %s  ' % u, 'edge'),
            ("printf '  %%s  \\n' %s" % u, '  %s  \r\n' % u, 'edge'),
            ("printf ' '", ' ', 'edge'),
        ])
    if r < 0.18:
        return ("printf '%%s\\n' %s" % u, u + '\r\n', 'plain')
    if r < 0.30:
        return ("printf '%%s' %s" % u, u, 'nonl')
    if r < 0.36:
        return ('true', '', 'empty')
    if r < 0.38:
        # a command made of blanks and line ends only is a command like any other: nothing is printed
        return (rng.choice([' ', '\n', '   \n', '\n\n', '\t']), '', 'empty')
    if r < 0.42:
        # several complete commands on separate lines: each prints when its own line is entered
        v, w = uid(rng), uid(rng)
        # (every line end str.splitlines() knows separates two commands - added after seeded round ten)
        nl = rng.choice(LINE_ENDS)
        return (nl.join(['echo %s' % u, 'echo %s' % v, 'printf %%s %s' % w]), '%s\r\n%s\r\n%s' % (u, v, w), 'multiline')
    if r < 0.48:
        n = rng.choice([3, 50, 2000]) if rng.random() < 0.8 else rng.choice([15000, 45000])
        return ('seq 1 %d' % n, ''.join('%d\r\n' % i for i in range(1, n + 1)), 'large' if n >= 15000 else 'plain')
    if r < 0.60:
        ws = [uid(rng) for _ in range(rng.randint(1, 4))]
        return ('for i in %s; do\n echo L$i\ndone' % ' '.join(ws), ''.join('L%s\r\n' % w for w in ws), 'multiline')
    if r < 0.68:
        v = uid(rng)
        return ('echo %s; echo %s' % (u, v), '%s\r\n%s\r\n' % (u, v), 'plain')
    if r < 0.75:
        return ('echo %s\n' % u, u + '\r\n', 'trailing-nl')
    if r < 0.82:
        return ('V%s=%s' % (u, u), '', 'assign:' + u)
    if r < 0.87:
        return ('echo %s >&2' % u, u + '\r\n', 'plain')
    if r < 0.90:
        return ('if true; then\n echo %s\nfi' % u, u + '\r\n', 'multiline')
    if r < 0.93:
        v = uid(rng)
        return (rng.choice(["echo '%s\n\n%s'" % (u, v), "cat <<EOF\n%s\n\n%s\nEOF" % (u, v)]),
                '%s\r\n\r\n%s\r\n' % (u, v), 'multiline')
    if rng.random() < 0.4:
        # earlier lines are complete and print something, the last one leaves the shell at the continuation prompt
        return ('echo %s\n%s' % (u, rng.choice(["echo 'unterminated", 'for i in 1; do', 'echo $('])), None, 'incomplete')
    return (rng.choice(['echo "abc', 'for i in 1; do', 'if true; then', "echo 'x", 'echo $(']), None, 'incomplete')


def gen_py(rng):
    r = rng.random()
    u = uid(rng)
    if r < 0.08:
        return rng.choice([
            ('print()', '\r\n', 'edge'),
            ("print('\\n%s')" % u, '\r\n%s\r\n' % u, 'edge'),
            ("print(); print('%s')" % u, '\r\n%s\r\n' % u, 'edge'),
            ("print('\\n')", '\r\n\r\n', 'edge'),
            ("print('%s\\n\\n')" % u, '%s\r\n\r\n\r\n' % u, 'edge'),
            ("print('  %s  ')" % u, '  %s  \r\n' % u, 'edge'),
            ("for i in range(2):\n    print()\n", '\r\n\r\n', 'edge'),
            ("import sys; _ = sys.stdout.write('  %s  '); sys.stdout.flush()" % u, '  %s  ' % u, 'edge'),
        ])
    if r < 0.2:
        return ("print('%s')" % u, u + '\r\n', 'plain')
    if r < 0.28:
        return ('x%s = %d' % (u, rng.randint(0, 99)), '', 'empty')
    if r < 0.3:
        return (rng.choice([' ', '\n', '   \n', '\n\n']), '', 'empty')
    if r < 0.34:
        v = uid(rng)
        nl = rng.choice(LINE_ENDS)
        return (nl.join(["print('%s')" % u, "print('%s')" % v, '1+1']), '%s\r\n%s\r\n2\r\n' % (u, v), 'multiline')
    if r < 0.4:
        a, b = rng.randint(0, 10 ** 6), rng.randint(0, 10 ** 6)
        return ('%d+%d' % (a, b), '%d\r\n' % (a + b), 'plain')
    if r < 0.55:
        n = rng.randint(1, 5)
        return ("for i in range(%d):\n    print('%s', i)\n" % (n, u), ''.join('%s %d\r\n' % (u, i) for i in range(n)), 'multiline')
    if r < 0.65:
        n = rng.choice([10, 3000]) if rng.random() < 0.7 else rng.choice([70000, 200000])
        return ("print('%s' + 'x' * %d)" % (u, n), u + 'x' * n + '\r\n', 'large' if n >= 70000 else 'plain')
    if r < 0.75:
        return ("import sys; _ = sys.stdout.write('%s'); sys.stdout.flush()" % u, u, 'nonl')
    if r < 0.82:
        return ("def f%s():\n    return '%s'\n" % (u, u), '', 'multiline')
    if r < 0.86:
        return ("print('%s'); print('%s')" % (u, u[::-1]), '%s\r\n%s\r\n' % (u, u[::-1]), 'plain')
    if r < 0.9:
        if rng.random() < 0.5:
            # an interior empty line inside a string literal
            return ("print('''%s\n\n%s''')" % (u, u[::-1]), '%s\r\n\r\n%s\r\n' % (u, u[::-1]), 'multiline')
        # a block closed by an empty line, then another statement in the same call
        return ("def h%s():\n    return '%s'\n\nprint(h%s())" % (u, u, u), u + '\r\n', 'multiline')
    if rng.random() < 0.4:
        return ("print('%s')\n%s" % (u, rng.choice(['if True:', 'for i in range(2):', '(1 +'])), None, 'incomplete')
    return (rng.choice(['for i in range(3):', 'def g():', '(1 +', 'if True:', "'''abc"]), None, 'incomplete')


NONASCII = [u'\u00e9', u'\u20ac', u'\U0001f600', u'\u00df', u'\u8a9e', u'a', u'-']


def gen_nonascii(rng, shell):
    """a command written in ASCII whose output is not: a token of one to four characters of mixed encoded lengths,
    repeated often enough (sometimes) for the output to arrive in many reads, so that read boundaries fall inside
    characters at ever different offsets"""
    u = uid(rng) + rng.choice(['', '+'])
    tok = u''.join(rng.choice(NONASCII) for _ in range(rng.randint(1, 4)))
    if all(ord(c) < 128 for c in tok):
        tok += u'\u00e9'
    n = rng.choice([1, 3, 40, 700]) if rng.random() < 0.5 else rng.choice([9000, 30000])
    nl = rng.random() < 0.5
    exp = u + tok * n + ('\r\n' if nl else '')
    kind = 'large' if len(exp.encode('utf-8')) > 5000 else 'nonascii'
    if shell == 'bash':
        octal = ''.join('\\%03o' % b for b in tok.encode('utf-8'))
        cmd = "printf '%%s' %s; printf '%s%%.0s' $(seq 1 %d)%s" % (u, octal, n, '; echo' if nl else '')
    else:
        esc = tok.encode('unicode_escape').decode('ascii')
        cmd = "import sys; _ = sys.stdout.buffer.write(('%s' + '%s' * %d + %r).encode('utf-8')); sys.stdout.flush()" % (
            u, esc, n, '\n' if nl else '')
    return (cmd, exp, kind)


def gen_case(rng):
    shell = rng.choice(['bash', 'python'])
    n = rng.randint(5, 40 if rng.random() < 0.3 else 14)
    cmds = [(gen_bash if shell == 'bash' else gen_py)(rng) for _ in range(n)]
    if rng.random() < 0.45:
        for _ in range(rng.randint(1, 3)):
            cmds.insert(rng.randrange(len(cmds) + 1), gen_nonascii(rng, shell))
    make = 'stock'
    if rng.random() < 0.4:
        make = rng.choice(['custom-init', 'custom-init'] + (['existing-echo', 'plain-prompts'] if shell == 'python' else []))
    case = {'shell': shell, 'async': rng.random() < 0.4, 'cmds': [list(c) for c in cmds], 'make': make,
            'init': rng.randrange(4)}
    if rng.random() < 0.35 and not any(c[2] == 'large' for c in cmds) and not any(len(c[1] or '') > 5000 for c in cmds):
        # reads much smaller than the prompt: every prompt arrives in pieces
        case['maxread'] = rng.choice([1, 5, 7, 15, 64])
    return case


BASH_INITS = ["export PAGER=cat\nexport PV_A=1", "export PAGER=cat\n", "for i in 1 2; do\n :\ndone",
              "echo init-noise; export PAGER=cat\necho more-noise"]
PY_INITS = ["import os\nimport re", "def twice(x):\n    return 2*x\n", "print('init noise')\nx_init = 1\n", "x_init = 2\n"]


def make_repl(case):
    """the stock factories, or the same wrapper built by hand the way the documentation shows: with an initialisation
    command of several lines, around an existing spawn that still echoes, or with the REPL's own prompts"""
    shell, make = case['shell'], case.get('make', 'stock')
    if make == 'stock':
        return replwrap.bash() if shell == 'bash' else replwrap.python(sys.executable)
    P, C = replwrap.PEXPECT_PROMPT, replwrap.PEXPECT_CONTINUATION_PROMPT
    if shell == 'bash':
        bashrc = os.path.join(os.path.dirname(replwrap.__file__), 'bashrc.sh')
        child = pexpect.spawn('bash', ['--rcfile', bashrc], echo=False, encoding='utf-8')
        ps1 = P[:5] + '\\[\\]' + P[5:]
        ps2 = C[:5] + '\\[\\]' + C[5:]
        return replwrap.REPLWrapper(child, u'\\$', u"PS1='{0}' PS2='{1}' PROMPT_COMMAND=''".format(ps1, ps2),
                                    extra_init_cmd=BASH_INITS[case.get('init', 0)])
    change = u"import sys; sys.ps1={0!r}; sys.ps2={1!r}"
    if make == 'custom-init':
        return replwrap.REPLWrapper(sys.executable, u'>>> ', change, extra_init_cmd=PY_INITS[case.get('init', 0)])
    if make == 'existing-echo':
        child = pexpect.spawn(sys.executable, echo=True, encoding='utf-8')
        return replwrap.REPLWrapper(child, u'>>> ', change)
    child = pexpect.spawn(sys.executable, echo=False, encoding='utf-8')
    return replwrap.REPLWrapper(child, u'>>> ', None, continuation_prompt=u'... ')


def one(case, acc):
    acc.case()
    acc.count('sequences')
    shell = case['shell']
    try:
        repl = make_repl(case)
        if case.get('maxread'):
            repl.child.maxread = case['maxread']
            acc.count('wrappers_with_small_reads')
        acc.count('wrappers_' + case.get('make', 'stock'))
    except Exception as e:
        # bash and python exist (selftest): an exception while the wrapper sets itself up comes from pexpect
        acc.violation('repl-cannot-start:' + type(e).__name__, 'could not start the %s wrapper: %r' % (shell, str(e)[:200]), case)
        return
    loop = None
    try:
        if case['async']:
            loop = asyncio.new_event_loop()
            asyncio.set_event_loop(loop)
        seen_special = False
        nontrivial = False
        for k, (cmd, exp, kind) in enumerate(case['cmds']):
            acc.count('commands')
            acc.count(shell + '_commands')
            ret = exc = None
            try:
                if case['async']:
                    acc.count('async_commands')
                    ret = loop.run_until_complete(repl.run_command(cmd, async_=True, timeout=30))
                else:
                    ret = repl.run_command(cmd, timeout=30)
            except CaseTimeout:
                raise
            except BaseException as e:
                exc = e
            where = '%s%s command #%d %r (%s)' % (shell, ' async' if case['async'] else '', k, cmd[:60], kind)
            if kind == 'incomplete':
                acc.count('incomplete_inputs')
                if isinstance(exc, pexpect.TIMEOUT) and ret is None:
                    # replwrap waits a hard-coded 1 s for the prompt after cancelling; on a loaded machine the
                    # REPL may answer later.  A wall-clock limit inside the subject is not a verdict: look whether
                    # the cancelled REPL comes back at all.
                    try:
                        repl.child.expect_exact([repl.prompt], timeout=30)
                        acc.count('cancel_slower_than_hardcoded_1s')
                        acc.inconc('%s: prompt after cancel arrived later than replwrap\'s hard-coded 1 s' % where)
                        return
                    except Exception:
                        pass
                if not isinstance(exc, ValueError):
                    acc.violation('incomplete-input-not-ValueError', '%s: returned %r raised %r' % (where, short(ret), exc), case)
                    return
                seen_special = True
                continue
            if exc is not None:
                mech = 'run_command-raises:' + type(exc).__name__
                if seen_special:
                    mech = 'command-after-incomplete-input-fails'
                acc.violation(mech, '%s: %r' % (where, str(exc)[:300]), case)
                return
            if ret != exp:
                if exp in ret and len(ret) > len(exp):
                    mech = 'output-contains-foreign-text'
                elif ret == '' and exp:
                    mech = 'output-missing'
                else:
                    mech = 'output-differs'
                acc.violation(mech, '%s: returned %s, expected %s' % (where, short(ret), short(exp)), case)
                return
            if seen_special:
                nontrivial = True
            if kind == 'multiline':
                acc.count('multiline_blocks')
                seen_special = True
            if any(ord(c) > 127 for c in exp):
                acc.count('non_ascii_outputs')
                if case['async']:
                    acc.count('non_ascii_outputs_awaited')
            if kind == 'large':
                acc.count('large_outputs')
                seen_special = True
        if nontrivial:
            acc.nontrivial('c16', case)
        if acc.evaluations <= 2:
            acc.sample({'shell': shell, 'async': case['async'], 'cmds': [[c[0][:60], short(c[1]), c[2]] for c in case['cmds'][:8]]})
    finally:
        try:
            if loop is not None and repl.child.async_pw_transport:
                repl.child.async_pw_transport[1].close()
        except Exception:
            pass
        try:
            repl.child.close(force=True)
        except Exception:
            pass
        if loop is not None:
            try:
                loop.run_until_complete(asyncio.sleep(0))
            except Exception:
                pass
            asyncio.set_event_loop(None)
            loop.close()


def short(x, n=70):
    r = repr(x)
    return r if len(r) <= n else r[:40] + '...' + r[-25:]


def plan(tier, seed):
    n = 64 if tier == 'quick' else 480
    return [{'n': b - a, 'shard': i, 'seed': seed} for i, (a, b) in enumerate(split_range(n, 16))]


def guarded(case, acc):
    try:
        with watchdog(180):
            one(case, acc)
    except CaseTimeout as e:
        acc.violation('run_command-does-not-return', 'sequence did not finish within 180 s: %s' % e, case)


def run_shard(spec, acc):
    signal.signal(signal.SIGHUP, signal.SIG_DFL)
    if 'replay' in spec:
        return guarded(spec['replay'], acc)
    rng = rng_for(spec['seed'], spec['shard'], 16)
    for _ in range(spec['n']):
        # replwrap has hard-coded 1 s limits (prompt after SIGINT): a violation must reproduce serially
        confirmed(gen_case(rng), guarded, acc)
