"""C19 screen operations vs a reference grid with an ambiguity mask."""
import itertools
import warnings

from ..core.runner import split_range
from ..models.screen_ref import RefScreen
from ..workloads.gen_expect import rng_for

warnings.filterwarnings('ignore', category=UserWarning)
warnings.filterwarnings('ignore', category=DeprecationWarning)

ID = 'C19'
LEVEL = 'exploration'
RULE = ('operation sequences over the documented screen operations with arguments from {below range, 1, interior, '
        'edge, above range, swapped corners}, str and bytes characters, scroll regions of every shape: ALL sequences '
        'up to the tier bound on tiny screens (enumerated, distinct by construction) + random sequences of 3..40 '
        'operations on screens up to 4x5; after every operation (random) / after the last operation (enumerated; '
        'every prefix is itself enumerated) the grid, cursor and saved cursor are compared with models/screen_ref.py '
        '(cells the documentation leaves open are masked) and get/get_abs/get_region/dump/str/pretty must describe '
        'the same grid. non-trivial = the sequence changed a cell, the cursor or the saved cursor')
ASSUMPTIONS = ['models/screen_ref.py implements the docstrings; cells the documentation does not determine (line vacated '
               'by scroll_up/scroll_down, part of the current line on the far side of the cursor under '
               'erase_down/erase_up, scroll direction of cursor_up_reverse at the top) are masked until overwritten',
               'a scroll region whose end row is above its start row contains no row: scrolling then moves nothing (cells '
               'outside the region are never touched by scrolling)']
REQUIRED = ['sequences', 'ops_executed', 'cells_compared', 'accessor_checks', 'enumerated_sequences']


_ALPHA = {}


def alphabet(rows, cols):
    if (rows, cols) not in _ALPHA:
        _ALPHA[(rows, cols)] = _alphabet(rows, cols)
    return _ALPHA[(rows, cols)]


def _alphabet(rows, cols):
    R = sorted(set([-1, 0, 1, 2, rows, rows + 1]))
    C = sorted(set([-1, 0, 1, 2, cols, cols + 1]))
    ops = []
    for r in R:
        for c in C:
            ops.append(('put_abs', r, c, 'x'))
            ops.append(('insert_abs', r, c, 'i'))
            ops.append(('cursor_home', r, c))
    ops += [('put_abs', 1, 1, 'yz'), ('put_abs', rows, cols, b'q'), ('put', 'a'), ('put', b'b'), ('put', 'cd'),
            ('insert', 'j'), ('insert', b'k'), ('insert_abs', 1, 1, b'm'),
            ('fill', 'f'), ('fill',), ('fill', b'g'),
            ('cursor_home',), ('cursor_force_position', rows, 1), ('cursor_force_position', 0, cols + 3),
            # cells may hold any character: control characters and the other Unicode line boundaries are just cell
            # contents for the grid and for every accessor
            ('put', '\x85'), ('put', b'\x85'), ('put_abs', 1, 1, '\u2028'), ('insert', '\x1d'), ('put', '\r'), ('fill', '\x0c')]
    boxes = [(1, 1, rows, cols), (rows, cols, 1, 1), (0, 0, rows + 1, cols + 1), (1, 2, 1, 2), (2, 1, 1, cols),
             (rows + 1, 1, rows + 1, cols), (1, cols + 1, rows, cols + 2), (-1, -1, 0, 0), (1, cols, rows, 1),
             (2, 2, rows, cols), (rows, 1, rows, cols), (1, 1, 1, 1)]
    for b in boxes:
        ops.append(('fill_region',) + b + ('r',))
    ops.append(('fill_region', 1, 1, rows, cols))
    ops.append(('fill_region', 1, 1, 1, cols, b's'))
    ops += [('cr',), ('lf',), ('crlf',), ('newline',), ('cursor_up_reverse',), ('cursor_save',), ('cursor_unsave',),
            ('cursor_save_attrs',), ('cursor_restore_attrs',), ('scroll_screen',), ('scroll_down',), ('scroll_up',),
            ('erase_end_of_line',), ('erase_start_of_line',), ('erase_line',), ('erase_down',), ('erase_up',),
            ('erase_screen',), ('set_tab',), ('clear_tab',), ('clear_all_tabs',)]
    for name in ('cursor_back', 'cursor_down', 'cursor_forward', 'cursor_up'):
        ops.append((name,))
        for n in (0, 1, 2, 100, -1):
            ops.append((name, n))
    for rs in R:
        for re in R:
            ops.append(('scroll_screen_rows', rs, re))
    return ops, boxes


def reduced(ops):
    """A smaller alphabet for the deepest enumeration level."""
    keep = []
    seen = set()
    for o in ops:
        if o[0] in ('put_abs', 'insert_abs', 'cursor_home') and len(o) >= 3:
            if o[1] not in (0, 1, 2) or o[2] not in (1, 2, 4):
                continue
        if o[0] == 'scroll_screen_rows' and (o[1] not in (0, 1, 2) or o[2] not in (0, 1, 2, 3)):
            continue
        if o[0] in ('cursor_back', 'cursor_down', 'cursor_forward', 'cursor_up') and len(o) == 2 and o[1] in (2, 100):
            continue
        if o[0] == 'fill_region' and o in seen:
            continue
        keep.append(o)
    return keep


SCREENS_Q = [(2, 3), (3, 2), (1, 1)]


def plan(tier, seed):
    specs = []
    if tier == 'quick':
        for (r, c) in SCREENS_Q:
            for part in range(4):
                specs.append({'mode': 'enum', 'rows': r, 'cols': c, 'depth': 2, 'part': part, 'parts': 4,
                              'reduced': False})
        for i, (a, b) in enumerate(split_range(120000, 8)):
            specs.append({'mode': 'rand', 'n': b - a, 'shard': i, 'seed': seed})
    else:
        for (r, c) in SCREENS_Q + [(2, 2), (3, 3)]:
            for part in range(4):
                specs.append({'mode': 'enum', 'rows': r, 'cols': c, 'depth': 2, 'part': part, 'parts': 4,
                              'reduced': False})
        for (r, c) in [(2, 3), (3, 2)]:
            for part in range(16):
                specs.append({'mode': 'enum', 'rows': r, 'cols': c, 'depth': 3, 'part': part, 'parts': 16,
                              'reduced': True})
        specs.append({'mode': 'enum', 'rows': 2, 'cols': 2, 'depth': 4, 'part': 0, 'parts': 1, 'reduced': 'tiny'})
        for i, (a, b) in enumerate(split_range(3000000, 16)):
            specs.append({'mode': 'rand', 'n': b - a, 'shard': i, 'seed': seed})
    return specs


def apply(obj, op):
    return getattr(obj, op[0])(*op[1:])


def norm_ch(ch):
    return ch.decode('latin-1') if isinstance(ch, bytes) else ch


def ref_apply(ref, op):
    args = tuple(norm_ch(a) if isinstance(a, (bytes, str)) else a for a in op[1:])
    return getattr(ref, op[0])(*args)


def shape_ok(s, rows, cols):
    if len(s.w) != rows:
        return 'grid has %d rows, expected %d' % (len(s.w), rows)
    for i, row in enumerate(s.w):
        if len(row) != cols:
            return 'row %d has %d cells, expected %d' % (i + 1, len(row), cols)
        for ch in row:
            if not isinstance(ch, str) or len(ch) != 1:
                return 'cell %r is not a single character' % (ch,)
    if not (1 <= s.cur_r <= rows and 1 <= s.cur_c <= cols):
        return 'cursor (%r,%r) outside %dx%d' % (s.cur_r, s.cur_c, rows, cols)
    return None


def compare(s, ref, acc, full, boxes):
    """-> (kind, detail) or None"""
    rows, cols = ref.rows, ref.cols
    why = shape_ok(s, rows, cols)
    if why:
        return ('grid-shape-broken', why)
    n = 0
    for r in range(rows):
        gr, wr = ref.g[r], s.w[r]
        for c in range(cols):
            if gr[c] is not None:
                n += 1
                if gr[c] != wr[c]:
                    return ('cell-differs', 'cell (%d,%d) is %r, documentation gives %r' % (r + 1, c + 1, wr[c], gr[c]))
    acc.count('cells_compared', n)
    acc.count('cells_masked', rows * cols - n)
    if (s.cur_r, s.cur_c) != (ref.cur_r, ref.cur_c):
        return ('cursor-differs', 'cursor (%d,%d), documentation gives (%d,%d)' % (s.cur_r, s.cur_c, ref.cur_r, ref.cur_c))
    if (s.cur_saved_r, s.cur_saved_c) != (ref.sav_r, ref.sav_c):
        return ('saved-cursor-differs', 'saved cursor (%d,%d), expected (%d,%d)' % (
            s.cur_saved_r, s.cur_saved_c, ref.sav_r, ref.sav_c))
    if not full:
        return None
    # accessors must all describe the grid s.w
    acc.count('accessor_checks')
    lines = [''.join(row) for row in s.w]
    if s.dump() != ''.join(lines):
        return ('accessor-disagrees:dump', 'dump()=%r grid=%r' % (s.dump(), lines))
    if str(s) != '\n'.join(lines):
        return ('accessor-disagrees:str', 'str()=%r grid=%r' % (str(s), lines))
    tb = '+' + '-' * cols + '+\n'
    if s.pretty() != tb + '\n'.join('|' + l + '|' for l in lines) + '\n' + tb:
        return ('accessor-disagrees:pretty', 'pretty()=%r' % s.pretty())
    g = s.get()
    if g != s.w[s.cur_r - 1][s.cur_c - 1]:
        return ('accessor-disagrees:get', 'get()=%r, cell under the cursor is %r' % (g, s.w[s.cur_r - 1][s.cur_c - 1]))
    for r in (-1, 0, 1, rows, rows + 1):
        for c in (0, 1, cols, cols + 2):
            rr = min(max(r, 1), rows)
            cc = min(max(c, 1), cols)
            if s.get_abs(r, c) != s.w[rr - 1][cc - 1]:
                return ('accessor-disagrees:get_abs', 'get_abs(%d,%d)=%r, nearest cell is %r' % (
                    r, c, s.get_abs(r, c), s.w[rr - 1][cc - 1]))
    for b in boxes:
        got = s.get_region(*b)
        rs, cs, re, ce = ref._box(*b)
        exp = [lines[r - 1][cs - 1:ce] for r in range(rs, re + 1)]
        if got != exp:
            return ('accessor-disagrees:get_region', 'get_region%r=%r, grid gives %r' % (b, got, exp))
    return None


def run_seq(seq, rows, cols, acc, boxes, every):
    from pexpect import screen
    s = screen.screen(rows, cols)
    ref = RefScreen(rows, cols)
    for k, op in enumerate(seq):
        acc.count('ops_executed')
        try:
            apply(s, op)
        except Exception as e:
            return ('operation-raises:' + op[0], 'op #%d %r raised %r' % (k, op, e))
        ref_apply(ref, op)
        last = (k == len(seq) - 1)
        if every or last:
            bad = compare(s, ref, acc, every or last, boxes)
        else:
            why = shape_ok(s, rows, cols)
            bad = ('grid-shape-broken', why) if why else None
        if bad:
            return (bad[0] + (':' + op[0] if ':' not in bad[0] else ''), 'after op #%d %r: %s' % (k, op, bad[1]))
    changed = (s.cur_r, s.cur_c, s.cur_saved_r, s.cur_saved_c) != (1, 1, 1, 1) or \
        any(ch != ' ' for row in s.w for ch in row)
    return changed


def run_shard(spec, acc):
    if 'replay' in spec:
        c = spec['replay']
        ops, boxes = alphabet(c['rows'], c['cols'])
        seq = [tuple(o) for o in c['seq']]
        acc.case()
        acc.count('sequences')
        r = run_seq(seq, c['rows'], c['cols'], acc, boxes, True)
        if isinstance(r, tuple):
            acc.violation(r[0], r[1], c)
        return
    if spec['mode'] == 'enum':
        rows, cols = spec['rows'], spec['cols']
        ops, boxes = alphabet(rows, cols)
        if spec['reduced'] == 'tiny':
            ops = [o for o in reduced(ops) if o[0] not in ('insert_abs', 'cursor_force_position', 'set_tab', 'clear_tab',
                                                            'clear_all_tabs', 'newline', 'cursor_save_attrs',
                                                            'cursor_restore_attrs')][::2]
        elif spec['reduced']:
            ops = reduced(ops)
        acc.seen('list:alphabet_sizes', '%dx%d depth %d: %d operations' % (rows, cols, spec['depth'], len(ops)))
        k = 0
        for depth in range(1, spec['depth'] + 1):
            for seq in itertools.product(ops, repeat=depth):
                k += 1
                if k % spec['parts'] != spec['part']:
                    continue
                acc.case()
                acc.count('sequences')
                acc.count('enumerated_sequences')
                r = run_seq(seq, rows, cols, acc, boxes, False)
                if isinstance(r, tuple):
                    acc.violation(r[0], r[1], {'rows': rows, 'cols': cols, 'seq': [list(o) for o in seq]})
                elif r:
                    acc.count('_distinct_by_construction')
                if acc.evaluations == 5000:
                    acc.sample({'rows': rows, 'cols': cols, 'seq': [list(o) for o in seq]})
        acc.count('enumerations_completed')
    else:
        rng = rng_for(spec['seed'], spec['shard'], 19)
        for _ in range(spec['n']):
            rows, cols = rng.choice([(1, 1), (1, 4), (2, 3), (3, 2), (4, 5), (3, 3), (4, 1), (2, 5)])
            ops, boxes = alphabet(rows, cols)
            seq = [rng.choice(ops) for _ in range(rng.randint(3, 40))]
            acc.case()
            acc.count('sequences')
            r = run_seq(seq, rows, cols, acc, boxes, True)
            case = {'rows': rows, 'cols': cols, 'seq': [list(o) for o in seq]}
            if isinstance(r, tuple):
                acc.violation(r[0], r[1], case)
            elif r:
                acc.nontrivial('c19', case)
            if acc.evaluations <= 2:
                acc.sample(case)


def coverage_extra(acc, tier):
    return {'exhaustive': False,
            'exhaustive_subspaces_completed': acc.counters.get('enumerations_completed', 0),
            'note': 'enumerated sub-spaces (all sequences up to the stated depth over the stated alphabets) were '
                    'completed when enumerations_completed equals the number of enum shards; random part is sampled'}
