"""C10 lifecycle safety: no stale handles, no leaks, no lying about liveness.

H8: operation sequences over the lifecycle alphabet against children with
chosen dispositions; invariants evaluated from /proc after every operation
(single-threaded, at quiescent points)."""
import errno
import gc
import tempfile
import zlib
import itertools
import os
import signal
import socket
import time

import pexpect
import pexpect.pty_spawn
import ptyprocess.ptyprocess
from pexpect import EOF, TIMEOUT, ExceptionPexpect, fdpexpect, socket_pexpect

from ..core.runner import split_range
from ..core.watchdog import watchdog, CaseTimeout
from ..core.acc import second_attempt
from ..workloads.gen_expect import rng_for
from ..workloads.puppetctl import Puppet, PeerError, proc_stat, wait_state

ID = 'C10'
LEVEL = 'fault_enumeration'
RULE = ('operation sequences over {isalive, wait, kill(sig), terminate(False/True), close(False/True), sendeof, expect(EOF), send, '
        'read_nonblocking, with-block left by exception, del + gc} x child dispositions {normal, ignores HUP only, ignores HUP+INT, ignores '
        'HUP+INT+TERM, stopped, already exited, exits mid-sequence} on the pty transport (ALL sequences up to the tier bound, '
        'random longer ones) and {isalive, close, send, read, expect(EOF), with, del} on fd and socket transports. After every '
        'operation: I1 liveness claims vs /proc (identity by start time), I2 dead and reaped after terminate(force=True) / '
        'close(), I3 close idempotent, child_fd == -1, closed, descriptor count back to baseline, no zombie, I4 after close '
        'every I/O operation raises and a canary pipe placed on the old descriptor number is untouched, I5 whenever '
        'child_fd != -1 it is the descriptor opened at spawn, I6 no signal is addressed to the pid number once the child has '
        'been reaped (os.kill as pexpect and ptyprocess see it is guarded: such a signal is noted and not delivered). non-trivial = sequence with >=2 operations on a disposition '
        'other than normal, or containing a close/terminate followed by another operation; distinct by (disposition, sequence)')
ASSUMPTIONS = ['delayafterclose / delayafterterminate lowered to 20 ms (configuration attributes); a violation is re-run twice with the default 0.1 s and reported only if it reproduces',
               'wait() is issued only when /proc shows the child exiting or the disposition guarantees it',
               '/proc/<pid>/stat start time identifies our child (no pid-reuse confusion)']
REQUIRED = ['sequences', 'operations', 'invariant_I1', 'invariant_I2', 'invariant_I3', 'invariant_I4', 'invariant_I5',
            'enumerated_sequences', 'fd_sequences', 'socket_sequences', 'socket_close_with_failing_shutdown', 'invariant_I6_signal_ops_after_reaping']

PTY_OPS = ['isalive', 'wait', 'kill0', 'killTERM', 'killCONT', 'terminate', 'terminateF', 'closeNF', 'close', 'sendeof',
           'expect_eof', 'send', 'read', 'with_exc', 'del']
DISPS = ['normal', 'ignhup', 'ignall', 'stopped', 'exited', 'exits-mid', 'ignhuponly']


def nfds():
    # (the listing itself uses a transient descriptor: keep only numbers that are still open afterwards)
    out = set()
    for x in os.listdir('/proc/self/fd'):
        try:
            os.fstat(int(x))
            out.add(x)
        except OSError:
            pass
    return out


class Ctx(object):
    pass


class KillGuard(object):
    """stands in for the os module inside pexpect.pty_spawn / ptyprocess.ptyprocess: a signal addressed to the
    child's pid number after the child has been reaped (the number is no longer ours) is noted and answered the way
    the kernel answers for an unused number, never delivered"""

    def __init__(self, real, ctx):
        self._real, self._ctx = real, ctx

    def kill(self, pid, sig):
        ctx = self._ctx
        if pid == getattr(ctx, 'pid', None):
            st = proc_stat(pid)
            if st is None or st[2] != ctx.start:
                ctx.stale_signals.append(sig)
                raise ProcessLookupError(errno.ESRCH, 'No such process')
        return self._real.kill(pid, sig)

    def __getattr__(self, name):
        return getattr(self._real, name)


def judge_pty(ctx, op, ret, exc, acc, case):
    """Invariants after one operation on the pty transport."""
    c = ctx.child
    out = []
    # I6: the pid number is a handle like the descriptor number: once the child has been reaped it is not used again
    if getattr(ctx, 'stale_signals', None):
        out.append(('signal-sent-to-reaped-pid', '%s sent signal(s) %r to pid %d after the child had been reaped' % (
            op, ctx.stale_signals, ctx.pid)))
        ctx.stale_signals = []
    st = proc_stat(ctx.pid)
    ours = st is not None and st[2] == ctx.start
    running = ours and st[0] not in ('Z', 'X')
    zombie = ours and st[0] == 'Z'
    gone = not ours
    if c is None:
        # after del + gc: nothing may be left behind
        acc.count('invariant_I3')
        if not gone:
            out.append(('child-left-behind-after-del', 'after del+gc the child is %s' % ('a zombie' if zombie else 'still running')))
        leaked = nfds() - ctx.base_fds
        if leaked:
            out.append(('descriptor-leak-after-del', 'descriptors %s still open after del+gc' % sorted(leaked)))
        return out
    # I1
    acc.count('invariant_I1')
    if op == 'isalive' and exc is None:
        if ret is True and gone:
            out.append(('reaped-child-reported-alive', 'isalive() returned True but the child has been reaped'))
        if ret is False and running:
            out.append(('running-child-reported-dead', 'isalive() returned False but /proc shows the child %s' % st[0]))
    if op in ('terminate', 'terminateF') and exc is None:
        # what terminate() says about the child is a liveness claim as well
        if ret is True and running:
            out.append(('terminate-true-but-child-running', '%s returned True but /proc shows the child %s' % (op, st[0])))
        if ret is False and gone:
            out.append(('terminate-false-but-child-reaped', '%s returned False although pexpect itself has reaped the child' % op))
    if gone and op in ('kill0', 'killTERM', 'killCONT', 'terminate', 'terminateF'):
        acc.count('invariant_I6_signal_ops_after_reaping')
    if c.terminated and running:
        out.append(('running-child-reported-terminated', 'terminated=True but /proc shows state %s (after %s)' % (st[0], op)))
    # I2
    if exc is None and (op == 'terminateF' or op == 'close' or op == 'with_exc'):
        acc.count('invariant_I2')
        if not gone:
            out.append(('child-survives-' + ('terminate-force' if op == 'terminateF' else 'close'),
                        'after %s the child is %s' % (op, 'an unreaped zombie' if zombie else 'still running (%s)' % st[0])))
        if op == 'terminateF' and ret is not True:
            out.append(('terminate-force-returns-false', 'terminate(force=True) returned %r' % (ret,)))
    if exc is not None and op in ('terminateF', 'close', 'with_exc') and not gone:
        acc.count('invariant_I2')
        out.append(('forced-' + ('terminate' if op == 'terminateF' else 'close') + '-fails-child-survives',
                    '%s raised %s and the child is %s' % (op, type(exc).__name__, 'a zombie' if zombie else 'still running')))
    # I3
    if exc is None and op in ('close', 'closeNF', 'with_exc'):
        acc.count('invariant_I3')
        if c.child_fd != -1 or not c.closed:
            out.append(('close-leaves-handle', 'after %s child_fd=%r closed=%r' % (op, c.child_fd, c.closed)))
        leaked = nfds() - ctx.base_fds
        if leaked:
            out.append(('descriptor-leak-after-close', 'descriptors %s still open after %s' % (sorted(leaked), op)))
        snap = (c.child_fd, c.closed, c.terminated, c.exitstatus, c.signalstatus)
        try:
            c.close()
            c.close(force=False)
        except Exception as e:
            out.append(('second-close-raises', 'close() again raised %r' % (e,)))
        else:
            if (c.child_fd, c.closed, c.terminated, c.exitstatus, c.signalstatus) != snap:
                out.append(('second-close-changes-state', '%r -> %r' % (snap, (c.child_fd, c.closed, c.terminated, c.exitstatus, c.signalstatus))))
        ctx.closed_ok = True
    # I5
    acc.count('invariant_I5')
    if c.child_fd != -1:
        try:
            fs = os.fstat(c.child_fd)
            ident = (fs.st_dev, fs.st_ino, fs.st_rdev)
        except OSError:
            ident = None
        if ident != ctx.fd_ident:
            out.append(('stale-descriptor-number', 'child_fd=%d is %s, not the pty opened at spawn (closed=%r, after %s%s)' % (
                c.child_fd, 'not an open descriptor' if ident is None else 'another file', c.closed, op,
                ' which raised %s' % type(exc).__name__ if exc is not None else '')))
    # I4: after a successful close every I/O operation fails and does not touch the old number - and likewise after a
    # polite close that failed (the child survived) but has given the descriptor up (child_fd == -1)
    if exc is not None and op == 'closeNF' and c.child_fd == -1 and ctx.fd_number not in nfds_int():
        ctx.closed_ok = True
        acc.count('invariant_I4_after_failed_polite_close')
    if getattr(ctx, 'closed_ok', False) and not getattr(ctx, 'i4_done', False):
        ctx.i4_done = True
        acc.count('invariant_I4')
        r, w = os.pipe()
        placed = None
        try:
            if ctx.fd_number not in nfds_int():
                os.dup2(w, ctx.fd_number)
                placed = ctx.fd_number
            for name, fn in (('send', lambda: c.send(b'LEAK')), ('sendline', lambda: c.sendline(b'LEAK')),
                             ('write', lambda: c.write(b'LEAK')), ('read_nonblocking', lambda: c.read_nonblocking(10, 0)),
                             ('expect', lambda: c.expect(b'x', timeout=0)), ('sendeof', lambda: c.sendeof()),
                             ('sendcontrol', lambda: c.sendcontrol('c')), ('setwinsize', lambda: c.setwinsize(10, 10)),
                             ('getecho', lambda: c.getecho())):
                try:
                    fn()
                    out.append(('io-after-close-succeeds:' + name, '%s() after close() did not raise' % name))
                except (TIMEOUT, EOF) as e:
                    out.append(('io-after-close-succeeds:' + name, '%s() after close() reported %s instead of failing' % (name, type(e).__name__)))
                except Exception:
                    pass
            import select
            if select.select([r], [], [], 0)[0]:
                out.append(('io-after-close-touches-reused-descriptor', 'a pipe placed on the old descriptor number received %r' % os.read(r, 100)))
        finally:
            if placed is not None:
                os.close(placed)
            os.close(r)
            os.close(w)
    return out


def nfds_int():
    return set(int(x) for x in nfds())


def do_op(ctx, op):
    c = ctx.child
    if op == 'isalive':
        return c.isalive()
    if op == 'wait':
        st = proc_stat(ctx.pid)
        if st is not None and st[2] == ctx.start and st[0] != 'Z':
            raise Skip()
        return c.wait()
    if op == 'kill0':
        return c.kill(0)
    if op == 'killTERM':
        return c.kill(signal.SIGTERM)
    if op == 'killCONT':
        return c.kill(signal.SIGCONT)
    if op == 'terminate':
        return c.terminate(False)
    if op == 'terminateF':
        return c.terminate(True)
    if op == 'closeNF':
        return c.close(force=False)
    if op == 'close':
        return c.close()
    if op == 'sendeof':
        return c.sendeof()
    if op == 'expect_eof':
        return c.expect([EOF, TIMEOUT], timeout=0.15)
    if op == 'send':
        return c.send(b'x')
    if op == 'read':
        try:
            r = c.read_nonblocking(100, 0.05)
        except (TIMEOUT, EOF) as e:
            r = type(e).__name__
        # the file-like read of a fixed number of characters as well (it goes through expect with the instance timeout)
        old = c.timeout
        c.timeout = 0.05
        try:
            c.read(2)
        except (TIMEOUT, EOF):
            pass
        finally:
            c.timeout = old
        return r
    if op == 'with_exc':
        class Boom(Exception):
            pass
        try:
            with c:
                raise Boom()
        except Boom:
            return None
    if op == 'del':
        ctx.child = None
        del c
        gc.collect()
        gc.collect()
        return None
    raise ValueError(op)


class Skip(Exception):
    pass


def settle(ctx, op):
    """Give the kernel a moment where the operation just sent a signal."""
    if op in ('killTERM', 'terminate', 'terminateF', 'close', 'closeNF', 'sendeof', 'with_exc', 'del'):
        t0 = time.time()
        while time.time() - t0 < 0.05:
            st = proc_stat(ctx.pid)
            if st is None or st[2] != ctx.start or st[0] == 'Z':
                break
            time.sleep(0.003)


def pty_sequence(case, acc):
    disp, seq = case['disp'], case['seq']
    opts = {'normal': [], 'ignhup': ['ignhup'], 'ignall': ['ignhup', 'ignterm'], 'stopped': [], 'exited': [],
            'exits-mid': [], 'ignhuponly': ['ignhuponly']}[disp]
    pup = Puppet(opts=opts)
    ctx = Ctx()
    ctx.child = None
    ctx.stale_signals = []
    saved_os = (pexpect.pty_spawn.os, ptyprocess.ptyprocess.os)
    pexpect.pty_spawn.os = ptyprocess.ptyprocess.os = KillGuard(os, ctx)
    try:
        ctx.base_fds = nfds()
        ctx.child = pexpect.spawn(pup.argv[0], pup.argv[1:], timeout=5)
        d = case.get('delays', 0.02)
        ctx.child.delayafterclose = ctx.child.delayafterterminate = d
        ctx.child.ptyproc.delayafterclose = ctx.child.ptyproc.delayafterterminate = d
        ctx.child.delaybeforesend = None
        if case.get('deadlog'):
            # log files were attached and the caller has closed them already (its `with open(...) as log:` block is
            # over): the life-cycle operations have nothing to log and must work as ever
            acc.count('sequences_with_closed_log_files')
            for nm in ('logfile', 'logfile_read', 'logfile_send')[:case['deadlog']]:
                f = tempfile.TemporaryFile()
                setattr(ctx.child, nm, f)
                f.close()
        ctx.pid = pup.wait_ready()
        st = proc_stat(ctx.pid)
        ctx.start = st[2]
        fs = os.fstat(ctx.child.child_fd)
        ctx.fd_ident = (fs.st_dev, fs.st_ino, fs.st_rdev)
        ctx.fd_number = ctx.child.child_fd
        if disp == 'stopped':
            os.kill(ctx.pid, signal.SIGSTOP)
            wait_state(ctx.pid, ('T',))
        elif disp == 'exited':
            pup.exit(3)
        mid = len(seq) // 2 if disp == 'exits-mid' else None
        for k, op in enumerate(seq):
            if k == mid:
                pup.exit(4)
            if ctx.child is None:
                break
            acc.count('operations')
            ret = exc = None
            try:
                ret = do_op(ctx, op)
            except Skip:
                acc.count('operations_skipped_would_block')
                continue
            except CaseTimeout:
                raise
            except BaseException as e:
                exc = e
            settle(ctx, op)
            bad = judge_pty(ctx, op, ret, exc, acc, case)
            if exc is not None and not isinstance(exc, (ExceptionPexpect, OSError, ValueError, EOF, TIMEOUT)):
                bad.append(('operation-raises-foreign:' + op, '%s raised %r' % (op, exc)))
            for mech, detail in bad:
                # classifier of the known mechanism: polite close on a child that survives HUP/INT
                acc.violation(mech, '%s child, sequence %s, after op #%d %s: %s' % (disp, '>'.join(seq), k, op, detail), case)
            if bad:
                return
        nt = len(seq) >= 2 and (disp != 'normal' or any(o in ('close', 'closeNF', 'terminate', 'terminateF')
                                                            for o in seq[:-1]))
        return nt
    finally:
        try:
            if ctx.child is not None:
                ctx.child.close(force=True)
        except Exception:
            pass
        ctx.child = None
        gc.collect()
        pexpect.pty_spawn.os, ptyprocess.ptyprocess.os = saved_os
        try:
            st = proc_stat(getattr(ctx, 'pid', 0) or 0)
            if st is not None and st[2] == getattr(ctx, 'start', None):
                os.kill(ctx.pid, signal.SIGKILL)
                try:
                    os.waitpid(ctx.pid, 0)
                except OSError:
                    pass
        except Exception:
            pass
        pup.cleanup()


# ------------------------------------------------------------- fd / socket

FD_OPS = ['isalive', 'close', 'send', 'read', 'expect_eof', 'with_exc', 'del', 'peer_close', 'peer_write']


class FaultySocket(object):
    """A socket whose shutdown() raises ENOTCONN while `armed` - what shutdown() of a connection the peer has reset
    does - and which is the real socket otherwise."""

    def __init__(self, sock):
        self.__dict__['_s'] = sock
        self.__dict__['armed'] = False

    def __getattr__(self, name):
        return getattr(self._s, name)

    def __setattr__(self, name, value):
        if name == 'armed':
            self.__dict__['armed'] = value
        else:
            setattr(self._s, name, value)

    def shutdown(self, how):
        if self.armed:
            import errno
            raise OSError(errno.ENOTCONN, 'Transport endpoint is not connected')
        return self._s.shutdown(how)


def fd_sequence(case, acc):
    tr, seq = case['tr'], case['seq']
    base = nfds()
    a, b = socket.socketpair()
    peer_open = True
    if tr == 'fd':
        fdnum = os.dup(a.fileno())
        c = fdpexpect.fdspawn(fdnum, timeout=2)
    else:
        s2 = a.dup()
        fdnum = s2.fileno()
        if 'close_fault' in seq:
            s2 = FaultySocket(s2)
        c = socket_pexpect.SocketSpawn(s2, timeout=2)
    if case.get('deadlog'):
        acc.count('sequences_with_closed_log_files')
        for nm in ('logfile', 'logfile_read', 'logfile_send')[:case['deadlog']]:
            f = tempfile.TemporaryFile()
            setattr(c, nm, f)
            f.close()
    fs = os.fstat(fdnum)
    ident = (fs.st_dev, fs.st_ino)
    closed_ok = False
    try:
        for k, op in enumerate(seq):
            if c is None:
                break
            acc.count('operations')
            ret = exc = None
            try:
                if op == 'isalive':
                    ret = c.isalive()
                elif op == 'close':
                    ret = c.close()
                elif op == 'close_fault':
                    # a close() whose shutdown() fails once (what a connection reset by the peer does): the error is an
                    # honest answer; the close() that follows is judged like any other (added after seeded round ten)
                    if tr == 'socket' and isinstance(c.socket, FaultySocket):
                        c.socket.armed = True
                        try:
                            c.close()
                        except OSError:
                            acc.count('socket_close_with_failing_shutdown')
                        c.socket.armed = False
                    op = 'close'
                    ret = c.close()
                elif op == 'send':
                    ret = c.send(b'x')
                elif op == 'read':
                    try:
                        ret = c.read_nonblocking(10, 0.02)
                    except (TIMEOUT, EOF) as e:
                        ret = type(e).__name__
                elif op == 'expect_eof':
                    ret = c.expect([EOF, TIMEOUT], timeout=0.05)
                elif op == 'with_exc':
                    class Boom(Exception):
                        pass
                    try:
                        with c:
                            raise Boom()
                    except Boom:
                        pass
                elif op == 'del':
                    c = None
                    gc.collect()
                elif op == 'peer_close':
                    if peer_open:
                        b.shutdown(socket.SHUT_WR)
                        peer_open = False
                elif op == 'peer_write':
                    if peer_open:
                        b.sendall(b'data')
            except BaseException as e:
                exc = e
            bad = []
            if c is not None:
                acc.count('invariant_I1')
                if op == 'isalive' and exc is None:
                    openp = fdnum in nfds_int() and not closed_ok
                    if ret is True and closed_ok:
                        bad.append(('closed-object-reported-alive', 'isalive() True after close()'))
                    if ret is False and not closed_ok:
                        bad.append(('open-object-reported-dead', 'isalive() False while the descriptor is open'))
                if op in ('close', 'with_exc') and exc is None:
                    acc.count('invariant_I3')
                    closed_ok = True
                    if c.child_fd != -1 or not c.closed:
                        bad.append(('close-leaves-handle', 'after %s child_fd=%r closed=%r' % (op, c.child_fd, c.closed)))
                    if fdnum in nfds_int():
                        bad.append(('descriptor-leak-after-close', 'descriptor %d still open after %s' % (fdnum, op)))
                    try:
                        c.close()
                    except Exception as e:
                        bad.append(('second-close-raises', 'close() again raised %r' % (e,)))
                    # I4
                    acc.count('invariant_I4')
                    r, w = os.pipe()
                    placed = None
                    try:
                        if fdnum not in nfds_int():
                            os.dup2(w, fdnum)
                            placed = fdnum
                        for name, fn in (('send', lambda: c.send(b'LEAK')), ('sendline', lambda: c.sendline(b'LEAK')),
                                         ('read_nonblocking', lambda: c.read_nonblocking(10, 0)),
                                         ('expect', lambda: c.expect(b'x', timeout=0))):
                            try:
                                fn()
                                bad.append(('io-after-close-succeeds:' + name, '%s() after close() did not raise' % name))
                            except (TIMEOUT, EOF) as e:
                                bad.append(('io-after-close-succeeds:' + name, '%s() after close() reported %s' % (name, type(e).__name__)))
                            except Exception:
                                pass
                        import select
                        if select.select([r], [], [], 0)[0]:
                            bad.append(('io-after-close-touches-reused-descriptor', 'pipe on the old number received %r' % os.read(r, 50)))
                    finally:
                        if placed is not None:
                            os.close(placed)
                        os.close(r)
                        os.close(w)
                acc.count('invariant_I5')
                if c.child_fd != -1:
                    try:
                        f2 = os.fstat(c.child_fd)
                        if (f2.st_dev, f2.st_ino) != ident:
                            bad.append(('stale-descriptor-number', 'child_fd=%d is another file after %s' % (c.child_fd, op)))
                    except OSError:
                        bad.append(('stale-descriptor-number', 'child_fd=%d is not open after %s (closed=%r)' % (c.child_fd, op, c.closed)))
                if exc is not None and not closed_ok and op in ('isalive', 'close', 'with_exc'):
                    bad.append(('operation-raises:' + op, '%s raised %r' % (op, exc)))
            for mech, detail in bad:
                acc.violation(mech + ':' + tr, '%s sequence %s, after op #%d %s: %s' % (tr, '>'.join(seq), k, op, detail), case)
            if bad:
                return
        return len(seq) >= 2 and any(o in ('close', 'with_exc') for o in seq[:-1])
    finally:
        for s in (a, b):
            try:
                s.close()
            except Exception:
                pass
        if tr == 'fd':
            try:
                os.close(fdnum)
            except OSError:
                pass
        else:
            try:
                s2.close()
            except Exception:
                pass


# ------------------------------------------------------------------ plan

def plan(tier, seed):
    import random
    rng = random.Random(seed)
    cases = []
    depth = 2 if tier == 'quick' else 3
    ops = PTY_OPS if tier != 'quick' else PTY_OPS
    for disp in DISPS:
        for d in range(1, depth + 1):
            seqs = list(itertools.product(ops, repeat=d))
            if tier != 'quick' and d == 3:
                seqs = [s for i, s in enumerate(seqs) if (i + seed + DISPS.index(disp)) % 4 == 0]
            for s in seqs:
                cases.append({'kind': 'pty', 'disp': disp, 'seq': list(s), 'enum': True})
    for _ in range(60 if tier == 'quick' else 2500):
        cases.append({'kind': 'pty', 'disp': rng.choice(DISPS),
                      'seq': [rng.choice(PTY_OPS) for _ in range(rng.randint(3, 6))], 'enum': False})
    quiet_pty = ['isalive', 'wait', 'kill0', 'killTERM', 'terminate', 'terminateF', 'closeNF', 'close', 'with_exc', 'del']
    for i in range(40 if tier == 'quick' else 600):
        cases.append({'kind': 'pty', 'disp': rng.choice(DISPS), 'deadlog': 1 + i % 3,
                      'seq': [rng.choice(quiet_pty) for _ in range(rng.randint(1, 4))], 'enum': False})
    for i in range(30 if tier == 'quick' else 300):
        cases.append({'kind': 'fd', 'tr': ['fd', 'socket'][i % 2], 'deadlog': 1 + i % 3,
                      'seq': [rng.choice(['isalive', 'close', 'with_exc', 'del', 'peer_close']) for _ in range(rng.randint(1, 4))],
                      'enum': False})
    for i in range(24 if tier == 'quick' else 400):
        cases.append({'kind': 'fd', 'tr': 'socket', 'enum': False,
                      'seq': [rng.choice(['isalive', 'send', 'read', 'peer_close', 'peer_write']) for _ in range(rng.randint(0, 2))] +
                             ['close_fault'] + [rng.choice(['isalive', 'close', 'with_exc', 'del']) for _ in range(rng.randint(0, 2))]})
    for tr in ('fd', 'socket'):
        for d in range(1, 4 if tier == 'quick' else 5):
            for s in itertools.product(FD_OPS, repeat=d):
                if d >= 3 and (zlib.crc32(repr(s).encode()) + seed) % (3 if tier == 'quick' else 1) and tier == 'quick':
                    continue
                cases.append({'kind': 'fd', 'tr': tr, 'seq': list(s), 'enum': True})
    rng.shuffle(cases)
    return [{'cases': cases[a:b], 'shard': i} for i, (a, b) in enumerate(split_range(len(cases), 16))]


def one(case, acc):
    """The grace periods after each signal are lowered to 20 ms to make thousands of sequences affordable; on a
    loaded machine a killed child may need longer than that to die.  A violation is therefore re-run twice,
    serially, with pexpect's own default delays (0.1 s) and reported only if it reproduces."""
    from ..core.acc import Acc
    first = Acc()
    _one(case, first)
    if first.violations and case.get('kind') == 'pty' and 'delays' not in case:
        mech = first.violations[0]['mechanism']
        slow = dict(case, delays=0.1)
        ok = True
        for _ in range(2):
            again = Acc()
            _one(slow, again)
            if not any(v['mechanism'] == mech for v in again.violations):
                ok = False
                break
        if not ok:
            first.violations = []
            first.viol_counts = {}
            first.count('flaky_unconfirmed')
            first.seen('list:flaky_unconfirmed_mechanisms', mech)
    acc.merge(first.dump())


def _one(case, acc):
    acc.case()
    acc.count('sequences')
    if case.get('enum'):
        acc.count('enumerated_sequences')
    try:
        with watchdog(60):
            if case['kind'] == 'pty':
                nt = pty_sequence(case, acc)
            else:
                acc.count(case['tr'] + '_sequences')
                nt = fd_sequence(case, acc)
    except PeerError as e:
        acc.inconc('peer: %s (%r)' % (e, case))
        return
    except CaseTimeout as e:
        def again():
            if case['kind'] == 'pty':
                pty_sequence(case, acc)
            else:
                fd_sequence(case, acc)
        try:
            second_attempt(acc, case, again, 60, 'operation sequence %s on a %s child did not finish within 60 s' % (
                '>'.join(case.get('seq', [])), case.get('disp', case.get('tr'))))
        except PeerError as e2:
            acc.inconc('peer: %s (%r)' % (e2, case))
        return
    if nt:
        if case.get('enum'):
            acc.count('_distinct_by_construction')
        else:
            acc.nontrivial('c10', case)
    if acc.evaluations <= 3:
        acc.sample(case)


def run_shard(spec, acc):
    signal.signal(signal.SIGHUP, signal.SIG_DFL)
    if 'replay' in spec:
        return one(spec['replay'], acc)
    for case in spec['cases']:
        one(case, acc)
