"""C12 run(): complete output, each event answered once, true exit status."""
import json
import os
import shutil
import sys
import tempfile
import time

import pexpect
from pexpect import EOF, TIMEOUT

from ..core.runner import split_range
from ..core.watchdog import watchdog, CaseTimeout
from ..core.acc import confirmed
from ..workloads.gen_expect import rng_for
from ..workloads.puppetctl import PEERS, PY, proc_stat

ID = 'C12'
LEVEL = 'exploration'
RULE = ('scripted dialogue children (raw mode; prompts, payloads of 0..300 KB, pauses shorter/longer than the timeout, exit code) '
        'that record what they printed and every response line they received, with sequence numbers; event tables as dict and '
        'list, responses as string / function / bound method, callbacks returning None / a string / True, EOF and TIMEOUT as '
        'event keys, overlapping patterns in list order, floods of hundreds of event occurrences streamed without waiting (each must be answered once, in order), bytes and unicode. run() must return exactly what the child printed '
        'up to the stop point (EOF, timeout, callback returning true), each piece once; the child must have received exactly '
        'the expected responses, once each, in order; callbacks must see event_count and child; withexitstatus the real '
        'code; run() must return (20 s watchdog = refuting event). non-trivial = >=2 prompts answered or an EOF/TIMEOUT '
        'event key or a payload >= 64 KB; distinct by case')
ASSUMPTIONS = ['the dialogue child is in raw mode, so the tty neither echoes nor rewrites bytes',
               'a violation is reported only if it reproduces in two further serial runs of the same dialogue',
               'pauses are either <= T/6 or >= 2.5 T (T = 1.0 s) so that which side of the timeout they fall on does not depend on load']
REQUIRED = ['runs', 'flood_occurrences_checked', 'responses_checked', 'output_bytes_compared', 'callback_invocations', 'eof_event_runs', 'timeout_event_runs',
            'exit_status_checks', 'exit_status_checks_child_ended_by_signal', 'exit_status_checks_stopped_early', 'list_form', 'dict_form', 'overlapping_patterns_wider', 'overlapping_patterns_shorter_first']

DIALOGUE = os.path.join(PEERS, 'dialogue.py')
T = 1.0


def gen_flood(rng):
    """The child streams many occurrences of one event pattern without waiting for answers (the callback only
    records them): occurrences straddle every kind of read boundary."""
    enc = rng.choice([None, 'utf-8'])
    n = rng.choice([300, 700, 1500])
    fill = rng.choice([0, 3, 11])
    body = ''.join('<<%05d>>%s' % (i, '.' * fill) for i in range(n)) + 'END'
    code = rng.choice([0, 3])
    return {'enc': enc, 'flood': n, 'steps': [['pause', 0.05], ['print', body.encode().hex()], ['exit', code]],
            'events': [], 'overlap': None, 'form': rng.choice(['dict', 'list']), 'eof_event': None, 'timeout_event': None,
            'code': code, 'stop_at': None, 'withexitstatus': True, 'runu': False, 'T': 20}


def gen_case(rng):
    if rng.random() < 0.12:
        return gen_flood(rng)
    enc = rng.choice([None, 'utf-8'])
    nprompts = rng.randint(0, 4)
    steps = []
    events = []
    names = ['ASK%d:' % i for i in range(1, nprompts + 1)]
    stop_at = None
    kinds = ['str', 'str', 'func-str', 'method-str', 'func-none-then-line']
    for i, nm in enumerate(names):
        # payload before the prompt
        if rng.random() < 0.7:
            n = rng.choice([0, 5, 200, 5000]) if rng.random() < 0.9 else rng.choice([70000, 300000])
            pay = ('p%d-' % i).encode() + bytes(rng.choice(b'abcxyz \r\n0123456789') for _ in range(n))
            steps.append(['print', pay.hex()])
        if rng.random() < 0.3:
            steps.append(['pause', 0.05])
        steps.append(['print', nm.encode().hex()])
        k = rng.choice(kinds)
        if i == nprompts - 1 and rng.random() < 0.25:
            k = 'func-true'
            stop_at = i
        events.append({'pat': nm, 'kind': k, 'resp': 'r%d\xe9\n' % i if enc else 'r%d\n' % i})
        steps.append(['readline'])
    overlap = None
    if names and rng.random() < 0.3 and not (stop_at is not None and len(names) == 1):
        # a shorter pattern listed first wins at the same position
        j = rng.choice([x for x in range(len(names)) if x != stop_at])
        overlap = {'pat': names[j][:-1], 'kind': 'str', 'resp': 'o%d\n' % j, 'before': j}
    tail = rng.choice(['eof', 'eof', 'eof', 'long-pause', 'long-pause-then-more'])
    big = any(s[0] == 'print' and len(s[1]) >= 2 * 60000 for s in steps)
    if stop_at is not None or big:
        # (a large payload needs a timeout far above the time it takes to read it: no timeout games there)
        tail = 'eof'
    if rng.random() < 0.6:
        steps.append(['print', b'tail-output\r\n'.hex()])
    if tail.startswith('long-pause'):
        steps.append(['pause', 2.6 * T])
        if tail == 'long-pause-then-more':
            steps.append(['print', b'late'.hex()])
    code = rng.choice([0, 0, 1, 7, 200])
    if tail == 'eof' and stop_at is None and rng.random() < 0.2:
        # the child is ended by a signal: there is no exit code to report (added after seeded round ten)
        code = None
        steps.append(['killself', rng.choice([9, 15, 10, 2])])
    else:
        steps.append(['exit', code])
    eof_event = rng.choice([None, None, None, 'func-true', 'func-none', 'str']) if tail == 'eof' else None
    timeout_event = None
    split = False
    if tail.startswith('long-pause') and rng.random() < 0.6:
        timeout_event = {'true_at': rng.choice([1, 2, 99])}
    if tail == 'eof' and stop_at is None and not big and names and rng.random() < 0.25:
        # a prompt whose first part arrives before a TIMEOUT event and whose rest arrives after it: the ticks
        # never stop the run, the prompt must still be answered (once)
        timeout_event = {'true_at': 99}
        k = max(i for i, s in enumerate(steps) if s[0] == 'print' and bytes.fromhex(s[1]).decode().startswith('ASK'))
        nm = bytes.fromhex(steps[k][1])
        cut = rng.randint(1, len(nm) - 1)
        steps[k:k + 1] = [['print', nm[:cut].hex()], ['pause', 1.6 * T], ['print', nm[cut:].hex()]]
        split = True
    Tc = 20 if big else T
    if tail == 'eof' and timeout_event is None and not split and rng.random() < 0.25:
        Tc = rng.choice([-1, None])          # "the default" / "no time limit": no pause in this dialogue comes near
    if overlap is None and not split and names and rng.random() < 0.3 and not (stop_at is not None and len(names) == 1):
        # a wider pattern listed further down whose occurrence starts earlier in the stream and ends later than the
        # occurrence of the prompt pattern listed before it: the event that comes first in the stream answers.
        # (the prompt is one small write with nothing pending before it, so it is searched in one piece)
        j = rng.choice([x for x in range(len(names)) if x != stop_at])
        k = next(i for i, s in enumerate(steps) if s[0] == 'print' and bytes.fromhex(s[1]) == names[j].encode())
        steps[k] = ['print', ('W-' + names[j] + '+').encode().hex()]
        while k > 0 and steps[k - 1][0] in ('print', 'pause'):
            del steps[k - 1]
            k -= 1
        steps.insert(k, ['pause', 0.05])
        overlap = {'pat': 'W-' + names[j] + '\\+', 'kind': 'str', 'resp': 'w%d\n' % j, 'before': rng.randint(j + 1, len(names)),
                   'wider': j}
    return {'dup': rng.choice([0, 0, 1, 2, 3]), 'enc': enc, 'steps': steps, 'events': events, 'overlap': overlap,
            'form': rng.choice(['dict', 'list']),
            'eof_event': eof_event, 'timeout_event': timeout_event, 'code': code, 'stop_at': stop_at,
            'withexitstatus': rng.random() < 0.7, 'runu': enc is not None and rng.random() < 0.5,
            'T': Tc, 'split_prompt': split}


class Book(object):
    """Holds the callbacks and records their invocations."""

    def __init__(self):
        self.calls = []
        self.timeouts_seen = []

    def make(self, tag, result, counter=None):
        def cb(d):
            self.timeouts_seen.append(getattr(d.get('child'), 'timeout', 'no child'))
            self.calls.append((tag, d.get('event_count'), 'child' in d and hasattr(d['child'], 'expect')))
            if callable(result):
                return result()
            return result
        return cb

    def method_str(self, d):
        self.timeouts_seen.append(getattr(d.get('child'), 'timeout', 'no child'))
        self.calls.append(('method', d.get('event_count'), 'child' in d and hasattr(d['child'], 'expect')))
        return self._method_value


def one(case, acc):
    acc.case()
    acc.count('runs')
    acc.count(case['form'] + '_form')
    enc = case['enc']
    tmp = tempfile.mkdtemp(prefix='pvmon-c12-')
    try:
        sp = os.path.join(tmp, 'script.json')
        rp = os.path.join(tmp, 'report.jsonl')
        with open(sp, 'w') as f:
            json.dump(case['steps'], f)
        book = Book()
        S = (lambda s: s) if enc else (lambda s: s.encode('utf-8'))
        pairs = []
        expected_resp = {}      # prompt index -> bytes the child must receive
        state = {'none_sent': set()}
        for i, ev in enumerate(case['events']):
            k = ev['kind']
            resp = S(ev['resp'])
            if k == 'str':
                r = resp
            elif k == 'func-str':
                r = book.make('func-str#%d' % i, resp)
            elif k == 'method-str':
                b2 = Book()
                b2.calls = book.calls
                b2.timeouts_seen = book.timeouts_seen
                b2._method_value = resp
                r = b2.method_str
            elif k == 'func-none-then-line':
                # the callback answers the child itself and returns None
                def mk(i=i, resp=resp):
                    def cb(d):
                        book.calls.append(('func-none#%d' % i, d.get('event_count'), 'child' in d))
                        d['child'].send(resp)
                        return None
                    return cb
                r = mk()
            else:
                r = book.make('func-true#%d' % i, True)
            pairs.append((S(ev['pat']), r))
            expected_resp[i] = resp
        seen_markers = []
        if case.get('flood'):
            def rec(d):
                seen_markers.append(d['child'].after)
                book.calls.append(('flood', d.get('event_count'), 'child' in d))
                if len(seen_markers) == 3:
                    time.sleep(0.3)        # let the output pile up so that reads come back full
                return None
            pairs.append((S(r'<<\d{5}>>'), rec))
        if case['overlap']:
            ov = case['overlap']
            acc.count('overlapping_patterns_wider' if ov.get('wider') is not None else 'overlapping_patterns_shorter_first')
            pairs.insert(ov['before'], (S(ov['pat']), S(ov['resp'])))
        if case['eof_event']:
            acc.count('eof_event_runs')
            k = case['eof_event']
            r = book.make('eof-true', True) if k == 'func-true' else book.make('eof-none', None) if k == 'func-none' else S('bye\n')
            pairs.append((EOF, r))
        if case['timeout_event']:
            acc.count('timeout_event_runs')
            ticks = [0]

            def tick():
                ticks[0] += 1
                return True if ticks[0] >= case['timeout_event']['true_at'] else None
            pairs.append((TIMEOUT, book.make('tick', tick)))
        if case['form'] == 'list' and case.get('dup') and case['events']:
            # the same pattern listed again further down with another answer: the list keeps its priority order, so
            # the first entry goes on answering
            acc.count('lists_with_repeated_patterns')
            j = case['dup'] % len(case['events'])
            pairs.append((S(case['events'][j]['pat']), S('dup-answer\n')))
        events = dict(pairs) if case['form'] == 'dict' else list(pairs)
        if not pairs:
            events = None
        cmd = '%s -S -E %s %s %s' % (PY, DIALOGUE, sp, rp)
        fn = pexpect.runu if case['runu'] else pexpect.run
        kw = {} if case['runu'] else {'encoding': enc}
        ret = exc = None
        t0 = time.time()
        try:
            with watchdog(20 if case.get('T', T) == T else 120):
                ret = fn(cmd, timeout=case.get('T', T), withexitstatus=case['withexitstatus'], events=events, **kw)
        except CaseTimeout:
            mech = 'run-does-not-return'
            if case['eof_event'] in ('func-none', 'str'):
                mech = 'run-eof-event-without-true-never-returns'
            acc.violation(mech, 'run() did not return within 20 s (eof_event=%r timeout_event=%r, %d callback calls)' % (
                case['eof_event'], case['timeout_event'], len(book.calls)), case)
            return
        except BaseException as e:
            exc = e
        dt = time.time() - t0
        if exc is not None:
            mech = 'run-raises:' + type(exc).__name__
            acc.violation(mech, 'run() raised %r (eof_event=%r)' % (exc, case['eof_event']), case)
            return
        status = None
        out = ret
        if case['withexitstatus']:
            out, status = ret
        # give the child a moment to finish writing its report (it is torn down by SIGHUP at worst)
        time.sleep(0.05)
        rep = []
        try:
            with open(rp) as f:
                for line in f:
                    try:
                        rep.append(json.loads(line))
                    except ValueError:
                        pass
        except FileNotFoundError:
            acc.inconc('dialogue child wrote no report')
            return
        printed = [bytes.fromhex(x[2]) for x in rep if x[1] == 'printed']
        received = [bytes.fromhex(x[2]) for x in rep if x[1] == 'received']
        all_printed = b''.join(printed)
        got = out if isinstance(out, bytes) else out.encode('utf-8')
        if not isinstance(out, (str if enc else bytes)):
            acc.violation('run-output-wrong-type', 'run() returned %s in %s mode' % (type(out).__name__, enc or 'bytes'), case)
            return

        def v(mech, detail):
            acc.violation(mech, '%s form=%s eof_event=%r timeout_event=%r stop_at=%r: %s' % (
                enc or 'bytes', case['form'], case['eof_event'], case['timeout_event'], case['stop_at'], detail), case)
            return False
        # ---- output: exactly what the child printed up to the stop point
        full = b''.join(bytes.fromhex(s[1]) for s in case['steps'] if s[0] == 'print')
        never_stops = bool(case['timeout_event'] and case['timeout_event']['true_at'] > 2)
        Treq = case.get('T', T)
        Teff = 30 if Treq == -1 else (float('inf') if Treq is None else max(Treq, T))
        stops_early = case['stop_at'] is not None or (
            any(s[0] == 'pause' and s[1] > Teff for s in case['steps']) and not never_stops)
        acc.count('output_bytes_compared', len(got))
        if not stops_early:
            if got != full:
                return v(classify_output(got, full), 'run() returned %d bytes, the child printed %d: %s' % (
                    len(got), len(full), diff(got, full)))
        else:
            # stop point: the text printed before the long pause / up to the stop prompt
            upto = b''
            for s in case['steps']:
                if s[0] == 'pause' and s[1] > Teff:
                    break
                if s[0] == 'print':
                    upto += bytes.fromhex(s[1])
            if case['stop_at'] is not None:
                nm = case['events'][case['stop_at']]['pat'].encode()
                upto = upto[:upto.index(nm) + len(nm)]
            to = case['timeout_event']
            if to and to['true_at'] > 2:
                # the ticks never stop the run: it goes on to EOF
                upto = full
            if got != upto:
                return v(classify_output(got, upto), 'run() returned %d bytes, expected the %d printed up to the stop point: %s' % (
                    len(got), len(upto), diff(got, upto)))
        # ---- a flood of event occurrences: every one answered exactly once, in stream order
        if case.get('flood'):
            wantm = [S('<<%05d>>' % i) for i in range(case['flood'])]
            acc.count('flood_occurrences_checked', len(wantm))
            if seen_markers != wantm:
                k = next((j for j in range(min(len(seen_markers), len(wantm))) if seen_markers[j] != wantm[j]),
                         min(len(seen_markers), len(wantm)))
                return v('event-occurrence-missed-or-repeated', 'callback ran for %d of %d occurrences; first discrepancy at #%d (%r)' % (
                    len(seen_markers), len(wantm), k, seen_markers[k:k + 2]))
            if [c[1] for c in book.calls] != list(range(len(book.calls))):
                return v('callback-event_count-wrong', 'event_count sequence is not 0,1,2,...')
            acc.nontrivial('c12f', case['flood'], case['enc'], case['form'], len(full))
            return True
        # ---- responses: exactly once each, in stream order
        want = []
        for i, ev in enumerate(case['events']):
            if case['stop_at'] is not None and i >= case['stop_at']:
                break
            if overlap_answers(case, i):
                ov = case['overlap']
                want.append(S(ov['resp']) if enc is None else ov['resp'].encode('utf-8'))
            else:
                want.append(expected_resp[i] if enc is None else ev['resp'].encode('utf-8'))
        acc.count('responses_checked', len(want))
        if received[:len(want)] != want or len(received) > len(want):
            return v('responses-differ', 'the child received %r, expected %r' % (received[:6], want[:6]))
        # ---- callbacks
        acc.count('callback_invocations', len(book.calls))
        counts = [c[1] for c in book.calls]
        if counts != sorted(counts) or any(not c[2] for c in book.calls):
            return v('callback-state-dictionary-wrong', 'callback log %r' % (book.calls[:8],))
        # event_count = number of events handled before this one: prompt #i is event #i (one event per prompt,
        # whoever answers it), ticks and the EOF event follow consecutively
        exp_counts = []
        nprompt_events = 0
        for i, ev in enumerate(case['events']):
            if case['stop_at'] is not None and i > case['stop_at']:
                break
            answered_by_overlap = overlap_answers(case, i)
            if not answered_by_overlap and ev['kind'] != 'str':
                exp_counts.append(i)
            nprompt_events = i + 1
        tail_calls = [c for c in book.calls if c[0] in ('tick', 'eof-true', 'eof-none')]
        head_calls = [c for c in book.calls if c[0] not in ('tick', 'eof-true', 'eof-none')]
        if not case.get('split_prompt') and [c[1] for c in head_calls] != exp_counts[:len(head_calls)]:
            return v('callback-event_count-wrong', 'callbacks saw event_count %r, expected %r' % (
                [c[1] for c in head_calls], exp_counts))
        if tail_calls and not case.get('split_prompt') and [c[1] for c in tail_calls] != list(range(tail_calls[0][1], tail_calls[0][1] + len(tail_calls))):
            return v('callback-event_count-wrong', 'tick/EOF callbacks saw event_count %r' % ([c[1] for c in tail_calls],))
        if tail_calls and tail_calls[0][1] != nprompt_events and case['stop_at'] is None and not case.get('split_prompt'):
            return v('callback-event_count-wrong', 'first tick/EOF callback saw event_count %r after %d prompt events' % (
                tail_calls[0][1], nprompt_events))
        # ---- exit status
        if case['withexitstatus'] and not stops_early:
            acc.count('exit_status_checks')
            if case['code'] is None:
                acc.count('exit_status_checks_child_ended_by_signal')
            if status != case['code']:
                return v('run-exit-status-wrong', 'run() reported exit status %r, the child %s' % (
                    status, 'was ended by a signal (no exit code)' if case['code'] is None else 'exited with %d' % case['code']))
        elif case['withexitstatus']:
            # run() stopped before the child was done and closed it: the child either had finished meanwhile (its
            # code) or is torn down by close() and has no exit code of its own
            acc.count('exit_status_checks_stopped_early')
            if status is not None and status != case['code']:
                return v('run-exit-status-wrong', 'run() stopped early and reported exit status %r; the child exits with %r '
                         'when left alone and has no exit code when close() tears it down' % (status, case['code']))
        if len(want) >= 2 or case['eof_event'] or case['timeout_event'] or len(full) >= 65536:
            acc.nontrivial('c12', case if len(full) < 5000 else [case['events'], case['form'], case['eof_event'], len(full)])
        if acc.evaluations <= 2:
            acc.sample({k: (v2 if k != 'steps' else [s if s[0] != 'print' else ['print', s[1][:40]] for s in v2])
                        for k, v2 in case.items()})
    finally:
        shutil.rmtree(tmp, ignore_errors=True)


def overlap_answers(case, i):
    ov = case['overlap']
    if not ov:
        return False
    if ov.get('wider') is not None:
        return ov['wider'] == i
    return ov['before'] <= i and ov['pat'] == case['events'][i]['pat'][:-1]


def classify_output(got, want):
    if len(got) > len(want):
        # a piece reported twice?
        for k in range(1, len(got)):
            pass
        return 'run-output-duplicates-text' if all(got.count(want[i:i + 8]) >= 1 for i in range(0, max(1, len(want) - 8), 8)) \
            else 'run-output-differs'
    if want.startswith(got):
        return 'run-output-truncated'
    return 'run-output-differs'


def diff(got, want):
    i = next((j for j in range(min(len(got), len(want))) if got[j] != want[j]), min(len(got), len(want)))
    return 'first difference at %d: got %r expected %r' % (i, got[max(0, i - 10):i + 20], want[max(0, i - 10):i + 20])


def long_silence_case(Tval):
    """a child that says nothing for 31 s in the middle: with timeout=None run() has no time limit at all, with -1 it has
    the 30 s default of the spawn class"""
    return {'enc': None, 'steps': [['print', b'start\r\n'.hex()], ['pause', 31.0], ['print', b'done\r\n'.hex()], ['exit', 3]],
            'events': [], 'overlap': None, 'form': 'list', 'eof_event': None, 'timeout_event': None, 'code': 3, 'stop_at': None,
            'withexitstatus': True, 'runu': False, 'T': Tval, 'split_prompt': False, 'dup': 0, 'long_silence': True}


def plan(tier, seed):
    n = 200 if tier == 'quick' else 4000
    specs = [{'n': b - a, 'shard': i, 'seed': seed} for i, (a, b) in enumerate(split_range(n, 16))]
    specs.append({'long': [None], 'shard': 90, 'seed': seed})
    if tier != 'quick':
        specs.append({'long': [-1], 'shard': 91, 'seed': seed})
    return specs


def run_shard(spec, acc):
    import signal
    signal.signal(signal.SIGHUP, signal.SIG_DFL)
    if 'replay' in spec:
        return one(spec['replay'], acc)
    if 'long' in spec:
        for Tval in spec['long']:
            acc.count('long_silence_runs')
            confirmed(long_silence_case(Tval), one, acc)
        return
    rng = rng_for(spec['seed'], spec['shard'], 12)
    for _ in range(spec['n']):
        # real children and a real (1 s) timeout: a violation must reproduce in two further serial runs
        confirmed(gen_case(rng), one, acc)
