"""C09 exit status truth."""
import os
import resource
import signal
import sys
import time

import pexpect
from pexpect import EOF
from pexpect.popen_spawn import PopenSpawn

from ..core.runner import split_range
from ..core.watchdog import watchdog, CaseTimeout
from ..core.acc import second_attempt
from ..workloads.gen_expect import rng_for
from ..workloads.puppetctl import Puppet, PeerError, proc_stat, wait_state

ID = 'C09'
LEVEL = 'exploration'
RULE = ('fates = exit codes 0..255 and terminating signals; the child is a puppet told which code to _exit with / which '
        'signal to raise on itself (core dumps disabled), cross-checked by the raw wait status in /proc/<pid>/stat of the '
        'zombie before pexpect reaps it. Observation paths {isalive poll, wait, close, terminate, expect(EOF) then isalive / '
        'wait / close, read_nonblocking until EOF then isalive} x random further observations (values must never change), '
        'pty and piped-subprocess children, run()/runu() with withexitstatus. After each observation: exactly one of '
        'exitstatus/signalstatus set and equal to the fate, status decodes to the same, terminated true, wait()/run() '
        'return the exit code. non-trivial = fate other than exit 0; distinct by (transport, fate, path, repetitions)')
ASSUMPTIONS = ['/proc/<pid>/stat field 52 of a zombie is its raw wait status',
               'wait() is only issued once /proc shows the child has exited (it would otherwise block by design)']
REQUIRED = ['observations', 'preludes', 'proc_crosschecks', 'pty_cases', 'popen_cases', 'run_cases', 'signal_fates', 'exit_fates',
            'repeat_observations', 'inflicted_cases', 'run_stopped_before_child_exit']

SIGNALS = [1, 2, 3, 6, 9, 10, 12, 13, 14, 15, 24, 25, 26, 27, 29, 30, 31, 34, 40, 64, 4, 8, 11, 7, 5]
# realtime signals the language has no name for (signal.Signals(n) raises): a number is a number
CORE_SIGNALS = (3, 4, 6, 7, 8, 11, 24, 25, 31)
UNNAMED = [35, 36, 41, 49, 50, 57, 62, 63]
PATHS = ['isalive', 'wait', 'close', 'terminate', 'eof-isalive', 'eof-wait', 'eof-close', 'read-eof-isalive',
         'close-noforce', 'terminate-force']


def fates(tier, rng):
    if tier == 'thorough':
        fs = [('exit', n) for n in range(256)] + [('signal', s) for s in SIGNALS + UNNAMED]
    else:
        codes = sorted(set([0, 1, 2, 127, 128, 129, 137, 255, 254, 42] + [rng.randrange(256) for _ in range(14)]))
        fs = [('exit', n) for n in codes] + [('signal', s) for s in SIGNALS[:12] + [rng.choice(SIGNALS[12:]), rng.choice(UNNAMED)]]
    return fs


def plan(tier, seed):
    import random
    rng = random.Random(seed)
    fs = fates(tier, rng)
    cases = []
    for f in fs:
        for p in PATHS:
            cases.append({'tr': 'pty', 'fate': f, 'path': p})
        # histories in which something happened while the child was still alive
        k = (f[1] * 7 + len(cases)) % 5
        for j, (prelude, paths) in enumerate([('isalive', PATHS), ('read-timeout', PATHS),
                                              ('closeNF', ['isalive', 'wait', 'close', 'terminate', 'close-noforce', 'terminate-force']),
                                              ('terminate', PATHS)]):
            for i, p in enumerate(paths):
                if tier == 'thorough' or (i + j + k) % 3 == 0:
                    cases.append({'tr': 'pty', 'fate': f, 'path': p, 'prelude': prelude})
        if f[0] == 'signal' and f[1] in CORE_SIGNALS:
            # the same death with core files allowed: the wait status carries the 'core dumped' bit next to the number
            for p in (PATHS if tier == 'thorough' else PATHS[:4]):
                cases.append({'tr': 'pty', 'fate': f, 'path': p, 'core': True})
        for p in ('wait', 'eof-wait', 'kill-wait', 'kill-kill-wait', 'send-wait', 'send-send-wait'):
            cases.append({'tr': 'popen', 'fate': f, 'path': p})
        cases.append({'tr': 'run', 'fate': f, 'path': 'run', 'u': (f[1] % 2 == 0)})
        if f[0] == 'exit' and (tier == 'thorough' or f[1] % 3 == 1):
            cases.append({'tr': 'run', 'fate': f, 'path': 'run', 'u': (f[1] % 2 == 1), 'stop': ['callback', 'timeout'][f[1] % 2]})
    for rep in range(3 if tier == 'quick' else 40):
        for op in INFLICT:
            for disp in ('normal', 'ignhup', 'ignhuponly'):
                cases.append({'tr': 'inflict', 'fate': ('signal', 0), 'path': op, 'disp': disp, 'fast': rep % 2 == 0, 'rep': rep})
    rng.shuffle(cases)
    return [{'cases': cases[a:b], 'shard': i, 'seed': seed} for i, (a, b) in enumerate(split_range(len(cases), 16))]


def decode(status):
    if status is None:
        return None
    if os.WIFEXITED(status):
        return ('exit', os.WEXITSTATUS(status))
    if os.WIFSIGNALED(status):
        return ('signal', os.WTERMSIG(status))
    return ('other', status)


def snapshot(c):
    return (c.exitstatus, c.signalstatus, getattr(c, 'status', None), c.terminated)


def judge(c, fate, what, acc, case, check_status=True):
    acc.count('observations')
    ex, sg, st, term = snapshot(c)
    kind, val = fate
    desc = '%s %s=%d via %s%s: after %s exitstatus=%r signalstatus=%r status=%r terminated=%r' % (
        case['tr'], kind, val, case['path'], (' (prelude: %s)' % case['prelude']) if case.get('prelude') else '',
        what, ex, sg, st, term)
    bad = None
    if kind == 'exit':
        if ex != val or sg is not None:
            bad = 'wrong-exitstatus' if (ex is not None and sg is None) else 'exit-reported-as-signal-or-unset'
    else:
        if sg != val or ex is not None:
            bad = 'wrong-signalstatus' if (sg is not None and ex is None) else 'signal-reported-as-exit-or-unset'
    if bad is None and not term:
        bad = 'terminated-false-after-observation'
    if bad is None and check_status and decode(st) != fate:
        bad = 'status-decodes-differently'
    if bad:
        acc.violation(bad + ':' + case['tr'], desc, case)
        return False
    return True


def repeat_observations(c, fate, acc, case, rng):
    """every order of repeating observations: values never change"""
    first = snapshot(c)
    for _ in range(rng.randint(2, 5)):
        op = rng.choice(['isalive', 'wait', 'close', 'terminate', 'isalive'])
        acc.count('repeat_observations')
        try:
            if op == 'isalive':
                if c.isalive():
                    acc.violation('dead-child-reported-alive-later', 'isalive() True on repetition', case)
                    return False
            elif op == 'wait':
                r = c.wait()
                if fate[0] == 'exit' and r != fate[1]:
                    acc.violation('wait-returns-wrong-code:pty', 'repeated wait() returned %r' % (r,), case)
                    return False
            elif op == 'close':
                c.close()
            else:
                c.terminate()
        except Exception as e:
            acc.violation('repeat-observation-raises:' + op, '%s raised %r after the death was observed' % (op, e), case)
            return False
        if snapshot(c) != first:
            acc.violation('status-changed-later', 'after repeated %s: %r -> %r' % (op, first, snapshot(c)), case)
            return False
        if not judge(c, fate, 'repeat ' + op, acc, case):
            return False
    return True


class WaitRecorder(object):
    """stands in for the os module inside ptyprocess: notes the raw status the kernel hands over when the child is
    reaped (the ground truth for deaths that pexpect itself inflicts, where no zombie can be inspected beforehand)"""

    def __init__(self, real, pid):
        self._real = real
        self._pid = pid
        self.reaped = []

    def waitpid(self, pid, options):
        r = self._real.waitpid(pid, options)
        if r[0] == self._pid and r[0] != 0:
            self.reaped.append(r[1])
        return r

    def __getattr__(self, name):
        return getattr(self._real, name)


INFLICT = ['terminate', 'terminate-force', 'close', 'close-noforce', 'kill9-wait', 'kill15-wait', 'kill9-isalive',
           'kill15-close', 'kill2-terminate', 'with-block']


def inflicted_case(case, acc, rng):
    """the death is caused by pexpect itself (terminate / close / kill on a living child, which may ignore the polite
    signals): as soon as the call during which the kernel reported the death has returned, the attributes must say so"""
    import ptyprocess.ptyprocess as pp
    op, disp = case['path'], case['disp']
    pup = Puppet(opts=[disp] if disp in ('ignhup', 'ignhuponly') else [])
    c = None
    real = pp.os
    try:
        c = pexpect.spawn(pup.argv[0], pup.argv[1:], timeout=10)
        if case.get('fast'):
            c.delayafterclose = c.delayafterterminate = 0.02
            c.ptyproc.delayafterclose = c.ptyproc.delayafterterminate = 0.02
        pid = pup.wait_ready()
        if pid != c.pid:
            raise PeerError('pid mismatch')
        rec = WaitRecorder(real, pid)
        pp.os = rec
        acc.count('inflicted_cases')
        what = op
        try:
            if op in ('terminate', 'terminate-force'):
                r = c.terminate(force=(op == 'terminate-force'))
                what = '%s -> %r' % (op, r)
            elif op in ('close', 'close-noforce'):
                c.close(force=(op == 'close'))
            elif op == 'with-block':
                with c:
                    pass
            else:
                sig = int(op[4:op.index('-')])
                c.kill(sig)
                then = op[op.index('-') + 1:]
                if then == 'wait':
                    c.wait()
                elif then == 'isalive':
                    t0 = time.time()
                    while c.isalive() and time.time() - t0 < 10:
                        time.sleep(0.005)
                elif then == 'close':
                    c.close()
                else:
                    c.terminate(force=True)
        except pexpect.ExceptionPexpect as e:
            what = '%s raised %s' % (op, str(e)[:60])
        if not rec.reaped:
            # the child was not reaped during the operation (it ignored the signals that were sent): nothing to judge
            acc.count('inflicted_not_reaped')
            if c.terminated or c.exitstatus is not None or c.signalstatus is not None:
                acc.violation('status-set-while-running', 'after %s the kernel reported no death to pexpect, but terminated=%r '
                              'exitstatus=%r signalstatus=%r' % (what, c.terminated, c.exitstatus, c.signalstatus), case)
            return
        fate = decode(rec.reaped[-1])
        acc.seen('list:inflicted_fates', '%s/%s -> %s %d' % (disp, op, fate[0], fate[1]))
        case['fate'] = fate
        if not judge(c, fate, what, acc, case):
            return
        if not repeat_observations(c, fate, acc, case, rng):
            return
        acc.nontrivial('c09', {k: case[k] for k in ('tr', 'path', 'disp', 'fast')})
    finally:
        pp.os = real
        try:
            if c is not None:
                c.close(force=True)
        except Exception:
            pass
        pup.cleanup()


def pty_case(case, acc, rng):
    fate, path = case['fate'], case['path']
    prelude = case.get('prelude')
    pup = Puppet(opts=['ignhup'] if prelude in ('closeNF', 'terminate') else [])
    c = None
    try:
        c = pexpect.spawn(pup.argv[0], pup.argv[1:], timeout=10)
        c.delayafterclose = c.delayafterterminate = 0.02
        c.ptyproc.delayafterclose = c.ptyproc.delayafterterminate = 0.02
        pid = pup.wait_ready()
        if pid != c.pid:
            raise PeerError('pid mismatch')
        # operations performed while the child is still alive (they must not spoil the later observation)
        if prelude:
            acc.count('preludes')
            try:
                if prelude == 'isalive':
                    if not c.isalive():
                        acc.violation('running-child-reported-dead', 'isalive() False before the child died', case)
                        return
                elif prelude == 'closeNF':
                    try:
                        c.close(force=False)
                        raise PeerError('close(force=False) terminated a child that ignores HUP/INT')
                    except pexpect.ExceptionPexpect:
                        pass
                elif prelude == 'terminate':
                    if c.terminate(force=False):
                        raise PeerError('terminate() killed a child that ignores HUP/INT')
                elif prelude == 'read-timeout':
                    try:
                        c.read_nonblocking(10, 0.05)
                    except pexpect.TIMEOUT:
                        pass
            except PeerError:
                raise
            if c.terminated or c.exitstatus is not None or c.signalstatus is not None:
                acc.violation('status-set-while-running', 'after %s on a living child: terminated=%r exitstatus=%r signalstatus=%r' % (
                    prelude, c.terminated, c.exitstatus, c.signalstatus), case)
                return
        if fate[0] == 'exit':
            st = pup.exit(fate[1])
        elif case.get('core'):
            st = pup.dump_self(fate[1])
            st = wait_state(pid, ('Z',))
            acc.count('deaths_with_core_files_allowed')
            if st is not None and st[0] == 'Z' and st[3] is not None and st[3] & 0x80:
                acc.count('deaths_with_core_dumped_bit')
        else:
            st = pup.kill_self(fate[1])
            st = wait_state(pid, ('Z',))
        # ground truth from /proc while the child is still a zombie
        if st is not None and st[0] == 'Z' and st[3] is not None:
            acc.count('proc_crosschecks')
            raw = st[3]
            truth = ('exit', (raw >> 8) & 0xff) if (raw & 0x7f) == 0 else ('signal', raw & 0x7f)
            if truth != tuple(fate):
                raise PeerError('puppet fate %r, /proc says %r' % (fate, truth))
        acc.count('pty_cases')
        ok = True
        if path == 'isalive':
            alive = c.isalive()
            if alive:
                acc.violation('zombie-reported-alive', 'isalive() True although /proc shows a zombie (%r)' % (fate,), case)
                return
            ok = judge(c, fate, 'isalive()', acc, case)
        elif path == 'wait':
            r = c.wait()
            ok = judge(c, fate, 'wait()', acc, case)
            if ok and fate[0] == 'exit' and r != fate[1]:
                acc.violation('wait-returns-wrong-code:pty', 'wait() returned %r for exit code %d' % (r, fate[1]), case)
                return
        elif path in ('close', 'close-noforce'):
            c.close(force=(path == 'close'))
            ok = judge(c, fate, 'close()', acc, case)
        elif path in ('terminate', 'terminate-force'):
            r = c.terminate(force=(path == 'terminate-force'))
            if r is not True:
                acc.violation('terminate-false-for-dead-child', 'terminate() returned %r' % (r,), case)
                return
            ok = judge(c, fate, 'terminate()', acc, case)
        elif path.startswith('eof-'):
            c.expect(EOF)
            if path == 'eof-isalive':
                if c.isalive():
                    acc.violation('zombie-reported-alive', 'isalive() True after EOF and exit', case)
                    return
            elif path == 'eof-wait':
                r = c.wait()
                if fate[0] == 'exit' and r != fate[1]:
                    acc.violation('wait-returns-wrong-code:pty', 'wait() after EOF returned %r for exit code %d' % (r, fate[1]), case)
                    return
            else:
                c.close()
            ok = judge(c, fate, path, acc, case)
        elif path == 'read-eof-isalive':
            try:
                while True:
                    c.read_nonblocking(100, 5)
            except EOF:
                pass
            ok = judge(c, fate, 'read_nonblocking -> EOF', acc, case)
            if ok and c.isalive():
                acc.violation('zombie-reported-alive', 'isalive() True after read EOF', case)
                return
        if not ok:
            return
        if not repeat_observations(c, fate, acc, case, rng):
            return
        if fate != ('exit', 0) and list(fate) != ['exit', 0]:
            acc.nontrivial('c09', case)
    finally:
        try:
            if c is not None:
                c.close(force=True)
        except Exception:
            pass
        pup.cleanup()


def popen_case(case, acc, rng):
    fate, path = case['fate'], case['path']
    pup = Puppet()
    c = None
    try:
        c = PopenSpawn(pup.argv, timeout=10)
        pid = pup.wait_ready()
        if fate[0] == 'exit':
            pup.exit(fate[1])
        else:
            pup.kill_self(fate[1])
            wait_state(pid, ('Z', None))
        acc.count('popen_cases')
        if path == 'eof-wait':
            c.expect(EOF)
        if path.startswith('send'):
            # the caller writes to the child once it is dead (and catches the broken pipe), and only then asks for
            # the status
            for _ in range(path.count('send')):
                try:
                    c.send(b'x\n')
                except (OSError, ValueError):
                    acc.count('popen_writes_to_dead_child_failed')
        if path.startswith('kill'):
            # late clean-up / escalation: signals sent to a child that is already dead (still unreaped) must not
            # spoil the later observation
            for _ in range(path.count('kill')):
                try:
                    c.kill(signal.SIGTERM)
                except OSError:
                    pass
        r = c.wait()
        if not judge(c, fate, 'wait()', acc, case, check_status=False):
            return
        if fate[0] == 'exit' and r != fate[1]:
            acc.violation('wait-returns-wrong-code:popen', 'PopenSpawn.wait() returned %r for exit code %d' % (r, fate[1]), case)
            return
        first = snapshot(c)
        for _ in range(2):
            acc.count('repeat_observations')
            r2 = c.wait()
            if r2 != r or snapshot(c) != first:
                acc.violation('status-changed-later', 'second wait(): %r -> %r, %r -> %r' % (r, r2, first, snapshot(c)), case)
                return
        if tuple(fate) != ('exit', 0):
            acc.nontrivial('c09', case)
    finally:
        if c is not None:
            try:
                c.proc.kill()
            except Exception:
                pass
            try:
                c.proc.wait(5)
                c.proc.stdin.close()
                c.proc.stdout.close()
            except Exception:
                pass
        pup.cleanup()


def run_case(case, acc):
    fate = case['fate']
    acc.count('run_cases')
    if fate[0] == 'exit':
        cmd = "/bin/sh -c 'printf out; exit %d'" % fate[1]
    else:
        cmd = ("%s -S -c 'import os,signal,sys; sys.stdout.write(\"out\"); sys.stdout.flush(); "
               "signal.signal(%d, signal.SIG_DFL) if %d not in (9, 19) else None; os.kill(os.getpid(), %d)'"
               % (sys.executable, fate[1], fate[1], fate[1]))
    fn = pexpect.runu if case.get('u') else pexpect.run
    how = case.get('stop', 'eof')
    if how != 'eof' and fate[0] == 'exit':
        # run() ends before the child does - stopped by a callback that returns True, or by the timeout - and the
        # child exits with its code when run() closes the terminal (SIGHUP handler): the status that run() hands
        # back must be that code
        acc.count('run_stopped_before_child_exit')
        prog = ("import os,signal,sys,time; signal.signal(signal.SIGHUP, lambda *a: os._exit(%d)); "
                "sys.stdout.write(\"out\"); sys.stdout.flush(); time.sleep(30)" % fate[1])
        cmd = "%s -S -c '%s'" % (sys.executable, prog)
        if how == 'callback':
            out, st = fn(cmd, withexitstatus=True, timeout=10, events=[('out', lambda d: True)])
        else:
            out, st = fn(cmd, withexitstatus=True, timeout=0.5)
    else:
        out, st = fn(cmd, withexitstatus=True, timeout=10)
    acc.count('observations')
    want_out = 'out' if case.get('u') else b'out'
    if out != want_out:
        acc.violation('run-output-differs', 'run(%r) output %r' % (cmd, out), case)
        return
    if fate[0] == 'exit':
        if st != fate[1]:
            acc.violation('run-returns-wrong-exitstatus', 'run(%r, withexitstatus=True) returned status %r' % (cmd, st), case)
            return
    else:
        if st is not None:
            acc.violation('run-signal-death-reported-as-exit', 'run(%r) child killed by signal %d, status %r' % (cmd, fate[1], st), case)
            return
    if tuple(fate) != ('exit', 0):
        acc.nontrivial('c09', case)


def one(case, acc, rng):
    acc.case()
    case['fate'] = tuple(case['fate'])
    if case['tr'] == 'inflict':
        pass
    elif case['fate'][0] == 'exit':
        acc.count('exit_fates')
    else:
        acc.count('signal_fates')
    def go():
        if case['tr'] == 'inflict':
            inflicted_case(case, acc, rng)
        elif case['tr'] == 'pty':
            pty_case(case, acc, rng)
        elif case['tr'] == 'popen':
            popen_case(case, acc, rng)
        else:
            run_case(case, acc)
    try:
        with watchdog(60):
            go()
    except PeerError as e:
        acc.inconc('peer: %s (%r)' % (e, case))
    except CaseTimeout as e:
        try:
            second_attempt(acc, case, go, 60, '%s case %s did not finish within 60 s' % (case['tr'], case['path']))
        except PeerError as e2:
            acc.inconc('peer: %s (%r)' % (e2, case))
    if acc.evaluations <= 3:
        acc.sample(case)


def run_shard(spec, acc):
    # no core files from the children that die by a signal - except where a case asks for them (the puppet's D command
    # raises the soft limit again and writes the file into its own temporary directory)
    hard = resource.getrlimit(resource.RLIMIT_CORE)[1]
    resource.setrlimit(resource.RLIMIT_CORE, (0, hard))
    signal.signal(signal.SIGHUP, signal.SIG_DFL)
    if 'replay' in spec:
        import random
        return one(spec['replay'], acc, random.Random(0))
    rng = rng_for(spec['seed'], spec['shard'], 9)
    for case in spec['cases']:
        one(case, acc, rng)
