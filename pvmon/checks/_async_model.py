"""asyncio read path against the naive model of C03 (shared by C03 and C14).

One fdspawn on a pipe, driven through expect*(async_=True) only.  Delivery
units are released exactly as in C14 (one per "no match yet" report of the
engine), so the chunks the protocol sees are known; the expected outcome of
every await is computed by models/expect_ref.naive_search on the pending text
after every chunk.  Adds what the blocking twin of C14 cannot mirror: awaits
that the CALLER abandons (asyncio.wait_for around the coroutine) - afterwards
the read transport stays active, and text that arrives while no expect is
waiting is collected in the background and must be found by the next call.
"""
import array
import asyncio
import codecs
import fcntl
import re
import termios
import time

from pexpect import EOF, TIMEOUT

from . import c14
from ..models.expect_ref import naive_search
from ..monitors.expect_oracles import short
from ..workloads import gen_expect as G

T = 0.1


def gen_case(rng):
    enc = rng.choice([None, 'utf-8'])
    text = G.rand_text(rng, rng.randint(4, 40))
    if enc is None:
        text = text.replace('\xe9', 'e')
    raw = text.encode('utf-8' if enc else 'latin-1')
    n = len(raw)
    k = rng.randint(1, min(9, max(1, n - 1)))
    cuts = sorted(rng.sample(range(1, n), k)) if n > 1 else []
    pieces, a = [], 0
    for c in cuts + [n]:
        if raw[a:c]:
            pieces.append(raw[a:c])
        a = c
    calls = []
    for k in range(rng.randint(2, 6)):
        kind = rng.choice(['expect', 'expect_exact', 'expect_list'])
        pats = G.rand_pats(rng, 'x' if kind == 'expect_exact' else 're', 3)
        pats = [p for p in pats if not (isinstance(p, dict) and p.get('c'))]
        if not pats:
            pats = [{'x': 'a'}] if kind == 'expect_exact' else [{'re': 'a'}]
        idle = []
        if pieces and rng.random() < 0.5:
            idle = [pieces.pop(0)]
        units = []
        for _ in range(rng.randint(0, 3)):
            if pieces:
                units.append(pieces.pop(0))
        calls.append({'op': kind, 'pats': pats, 'units': units, 'idle': idle,
                      'W': rng.choice([-1, -1, None, 1, 2, 3, 4, 8, 100]),
                      'abandon': rng.random() < 0.45, 'T': rng.choice([0.05, 0.1, 0.1, 0.25])})
    if rng.random() < 0.5:
        # a later call looks for a longer literal (or its regex form) whose only chance is an occurrence that straddles
        # two of its own delivery units - after an earlier call with short strings has been through the protocol
        ks = [k for k, c0 in enumerate(calls) if k >= 1 and len(c0['units']) >= 2]
        if ks:
            k = rng.choice(ks)
            u0, u1 = calls[k]['units'][0], calls[k]['units'][1]
            try:
                lit = (u0[-rng.randint(1, 4):] + u1[:rng.randint(2, 5)]).decode('utf-8' if enc else 'latin-1')
            except UnicodeDecodeError:
                lit = None
            if lit:
                if rng.random() < 0.5:
                    calls[k]['op'] = 'expect_exact'
                    calls[k]['pats'] = [{'x': lit}]
                else:
                    calls[k]['op'] = rng.choice(['expect', 'expect_list'])
                    calls[k]['pats'] = [{'re': re.escape(lit)}]
                calls[k]['W'] = rng.choice([-1, -1, None, 100])
                calls[0]['op'] = 'expect_exact'
                calls[0]['pats'] = [{'x': rng.choice('ab')}, {'x': '\x00'}]
    if rng.random() < 0.5:
        calls[-1]['units'].append('EOF')
    return {'enc': enc, 'calls': calls}


def unread(fd):
    buf = array.array('i', [0])
    fcntl.ioctl(fd, termios.FIONREAD, buf)
    return buf[0]


class Pipe(object):
    """model of the pipe between the harness and the object: unread bytes and whether the writer has closed"""

    def __init__(self):
        self.data = b''
        self.eof = False


def one(case, acc, prefix='asyncio-path', scale=1):
    c14.install()
    acc.case()
    acc.count('async_model_histories')
    enc = case['enc']
    loop = asyncio.new_event_loop()
    asyncio.set_event_loop(loop)
    tw = c14.Twin(enc, 'awaited')
    c = tw.child
    dec = codecs.getincrementaldecoder(enc)('strict') if enc else None
    conv = (lambda s: s) if enc else (lambda s: s.encode('latin-1'))

    def D(b):
        return dec.decode(b) if dec else b
    P = '' if enc else b''
    pipe = Pipe()
    abandoned = False          # an await was abandoned and none has completed since: the read transport is active
    carried = []
    try:
        for k, call in enumerate(case['calls']):
            pats, mp = [], []
            for p in call['pats']:
                if p == 'EOF':
                    pats.append(EOF)
                    mp.append(('m', 'EOF'))
                elif p == 'TIMEOUT':
                    pats.append(TIMEOUT)
                    mp.append(('m', 'TIMEOUT'))
                elif 'x' in p:
                    pats.append(conv(p['x']))
                    mp.append(('x', conv(p['x'])))
                else:
                    pats.append(conv(p['re']))
                    mp.append(('re', re.compile(conv(p['re']), re.DOTALL)))
            W = call['W']
            Wm = None if W in (-1, None) else W
            idle = b''.join(call['idle']) if not pipe.eof and tw.w is not None else b''
            if carried and idle:
                # stream order: what an earlier call left unreleased comes first
                units = carried + [idle] + list(call['units'])
                idle = b''
            else:
                units = carried + list(call['units'])
            if 'EOF' in units:
                units = units[:units.index('EOF') + 1]
            # ---- what is written while no expect is waiting
            if idle:
                tw.prewrite([idle])
                pipe.data += idle
            if abandoned and pipe.data:
                # the transport of the abandoned await is still reading, and the loop of a real application keeps running
                acc.count('async_model_idle_chunks')
                for _ in range(400):
                    loop.run_until_complete(asyncio.sleep(0))
                    if unread(tw.r) == 0:
                        break
                loop.run_until_complete(asyncio.sleep(0))
                P = P + D(pipe.data)
                pipe.data = b''
            tw.queue = list(units)
            # ---- expected outcome: naive search of the pending text at call start and after every chunk; the harness
            # releases one more unit into the pipe whenever the engine reports "no match yet"
            q = list(units)

            def release():
                if q:
                    u = q.pop(0)
                    if u == 'EOF':
                        pipe.eof = True
                    else:
                        pipe.data += u
            hit = naive_search(mp, P, Wm)
            end = None
            at_start = hit is not None          # found in what was pending: the transport is not touched at all
            if hit is None:
                release()
            while hit is None:
                if pipe.data:
                    P = P + D(pipe.data)
                    pipe.data = b''
                    hit = naive_search(mp, P, Wm)
                    if hit is None:
                        release()
                    continue
                end = 'eof' if pipe.eof else 'timeout'
                break
            Tc = call.get('T', T) * scale
            kw = {'timeout': None if call['abandon'] else Tc, 'searchwindowsize': W}
            if call['op'] == 'expect':
                co = c.expect(pats, async_=True, **kw)
            elif call['op'] == 'expect_exact':
                co = c.expect_exact(pats, async_=True, **kw)
            else:
                co = c.expect_list(c.compile_pattern_list(pats), async_=True, **kw)
            ret = exc = None
            gave_up = False
            t0 = time.time()
            try:
                if call['abandon']:
                    try:
                        ret = loop.run_until_complete(asyncio.wait_for(co, Tc))
                    except asyncio.TimeoutError:
                        gave_up = True
                else:
                    ret = loop.run_until_complete(co)
            except c14.CaseTimeout:
                raise
            except BaseException as e:
                exc = e
            dt = time.time() - t0
            left = list(tw.queue)
            tw.queue = []
            acc.count('async_model_calls')
            desc = 'call #%d %s %r W=%r written before the call %r, units %r%s' % (
                k, call['op'], call['pats'], W, idle, units,
                ' (read transport left active by an abandoned await)' if abandoned else '')
            if left != q:
                acc.violation(prefix + '-differs-from-naive-model:reads', '%s: the engine asked for %d units, the model for %d' % (
                    desc, len(units) - len(left), len(units) - len(q)), case)
                return False
            carried = left
            if gave_up:
                acc.count('async_model_abandoned_awaits')
                if end != 'timeout':
                    acc.violation(prefix + ':await-does-not-finish', '%s: the naive model %s, the await was still pending after %.1f s'
                                  % (desc, 'ends in EOF' if hit is None else 'matches %r' % (short(P[hit[0]:hit[1]]),), Tc), case)
                    return False
                abandoned = True
                continue
            o = c14.outcome(c, ret, exc)
            if o[0] == 'error':
                acc.violation(prefix + ':raises:' + str(o[1]), '%s: %r' % (desc, o), case)
                return False
            if hit is not None:
                s, e, i, m = hit
                want = ('match', i, P[:s], P[s:e], P[e:])
                P = P[e:]
            elif end == 'eof':
                idx = max([j for j, (kk, pp) in enumerate(mp) if kk == 'm' and pp == 'EOF'] or [-1])
                want = ('eof', idx if idx >= 0 else 'raised', P, 'EOF', P[:0])
                P = P[:0]
            else:
                idx = max([j for j, (kk, pp) in enumerate(mp) if kk == 'm' and pp == 'TIMEOUT'] or [-1])
                want = ('timeout', idx if idx >= 0 else 'raised', P, 'TIMEOUT', P)
            got = (o[0], o[1], o[2], o[3], o[6])
            if got[0] == 'timeout':
                # the deadline of THIS call, whatever earlier calls on the object were given
                acc.count('async_model_timeouts_timed')
                if dt < Tc - 0.02:
                    acc.violation(prefix + ':call-times-out-early', '%s: TIMEOUT after %.3f s of a %.2f s timeout' % (desc, dt, Tc), case)
                    return False
                if dt > Tc + 2.0:
                    acc.violation(prefix + ':call-exceeds-timeout', '%s: TIMEOUT after %.2f s of a %.2f s timeout' % (desc, dt, Tc), case)
                    return False
            if not at_start:
                abandoned = False          # a call that used the transport pauses it when it ends
            if got != want:
                part = 'outcome-kind' if got[0] != want[0] else 'index' if got[1] != want[1] else \
                    'before-or-pending' if (got[2], got[4]) != (want[2], want[4]) else 'after'
                acc.violation('%s-differs-from-naive-model:%s' % (prefix, part), '%s: model %r; awaited call %r' % (
                    desc, tuple(short(x) if isinstance(x, (str, bytes)) else x for x in want),
                    tuple(short(x) if isinstance(x, (str, bytes)) else x for x in got)), case)
                return False
            if got[0] == 'eof':
                break
        acc.nontrivial('async-model', case)
        return True
    finally:
        tw.cleanup(loop)
        asyncio.set_event_loop(None)
        loop.close()


def run(spec, acc, prefix='asyncio-path'):
    from ..core.acc import Acc
    from ..core.watchdog import watchdog, CaseTimeout
    if 'replay' in spec:
        cases = [spec['replay']]
    else:
        rng = G.rng_for(spec['seed'], spec['shard'], 31)
        cases = (gen_case(rng) for _ in range(spec['n']))
    for case in cases:
        try:
            with watchdog(60):
                first = Acc()
                one(case, first, prefix)
                if first.violations:
                    # the timeouts in these histories are 50-250 ms of wall-clock time: on a loaded machine an await
                    # that should match may simply not get its turn in time.  A violation counts only if it is still
                    # there when every timeout of the history is twenty times as long (logic errors do not care).
                    with watchdog(240):
                        again = Acc()
                        one(case, again, prefix, scale=20)
                    if not again.violations:
                        first.violations = []
                        first.viol_counts = {}
                        first.count('async_model_unconfirmed_under_longer_timeouts')
                acc.merge(first.dump())
        except CaseTimeout as e:
            acc.violation(prefix + ':await-does-not-return', 'history did not finish within its watchdog (%s)' % (e,), case)
        if acc.too_many():
            break
