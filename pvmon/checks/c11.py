"""C11 logging fidelity: the log files are an exact transcript."""
import os
import termios
import time

from pexpect import EOF, TIMEOUT, ExceptionPexpect

from ..core.runner import split_range
from ..core.watchdog import watchdog, CaseTimeout
from ..core.acc import second_attempt
from ..workloads.gen_expect import rng_for
from ..workloads.puppetctl import PeerError
from ..workloads.transports import Link
from .c08 import CTRL

ID = 'C11'
LEVEL = 'exploration'
RULE = ('random interleavings of reads (read_nonblocking, expect with timeout 0 / short timeouts, expect to a sentinel) and '
        'sends (send, sendline, write, writelines, sendcontrol, sendeof, sendintr) with payloads incl. multi-byte text cut '
        'across peer writes, for every subset of {logfile, logfile_read, logfile_send} incl. one object shared by several '
        'roles, bytes and unicode mode, on pty / fd / socket / popen transports, and through interact() (outer pty '
        'driver). Recording file objects note every write(x)/flush() with a global sequence number: logfile_read must be '
        'exactly the text the read path delivered, logfile_send exactly what the send family was asked to send, logfile '
        'both in operation order, every write followed by a flush of that object before the API call returns, and x of '
        'the API string type. non-trivial = >=2 reads and >=2 sends interleaved with >=2 logs attached; distinct by case')
ASSUMPTIONS = ['read-side truth = values returned by the instance\'s read_nonblocking (observed by a wrapper); send-side truth '
               '= the arguments, coerced to the API string type as documented',
               'interact() part uses the outer-pty driver of C15']
REQUIRED = ['cases', 'async_cases', 'per_read_log_checks', 'log_writes_seen', 'flush_checks', 'read_events', 'send_events', 'transport_pty', 'transport_fd',
            'transport_socket', 'transport_popen', 'unicode_cases', 'bytes_cases', 'interact_cases']

TEXT = ['a', 'Z', ' ', '\n', '\r', '\xe9', '€', '日', '😀', '\x00', 'q']


class Rec(object):
    """A log file object that records what is done to it."""

    def __init__(self, name, journal):
        self.name = name
        self.j = journal

    def write(self, x):
        self.j.append(('w', self.name, x))

    def flush(self):
        self.j.append(('f', self.name))


def gen_case(rng, tr):
    enc = rng.choice([None, 'utf-8'])
    logs = rng.choice([['logfile'], ['logfile_read'], ['logfile_send'], ['logfile', 'logfile_read'],
                       ['logfile', 'logfile_send'], ['logfile_read', 'logfile_send'],
                       ['logfile', 'logfile_read', 'logfile_send'], ['logfile', 'logfile_read', 'logfile_send']])
    shared = rng.random() < 0.15 and len(logs) >= 2
    ops = []
    for _ in range(rng.randint(2, 14)):
        r = rng.random()
        if r < 0.45:
            txt = ''.join(rng.choice(TEXT) for _ in range(rng.randint(1, 12)))
            data = txt.encode('utf-8')
            n = len(data)
            cuts = sorted(rng.sample(range(1, n), min(n - 1, rng.randint(0, 2)))) if n > 1 else []
            ops.append(['peer', data.hex(), cuts, rng.choice(['read_nonblocking', 'expect0', 'expect_short', 'sentinel', 'read_small', 'read_small'])])
        elif r < 0.9:
            kind = rng.choice(['send', 'sendline', 'write', 'writelines'])
            pay = ''.join(rng.choice(TEXT) for _ in range(rng.randint(0, 10)))
            asbytes = enc is None and rng.random() < 0.6
            if kind == 'writelines':
                ops.append([kind, [pay, pay[:2]], asbytes])
            else:
                ops.append([kind, pay, asbytes])
        elif tr == 'pty':
            ops.append(rng.choice([['sendcontrol', rng.choice('cdgzCG[@]^_?\\`{|}~')], ['sendeof'], ['sendintr']]))
    late = []
    if rng.random() < 0.35:
        # sends after the peer has gone: whatever becomes of them (accepted, or refused with an exception), the log
        # shows what the caller asked to send (not sendline: PopenSpawn sends the line end in a second step, which a
        # refused first step never reaches)
        late = [[rng.choice(['send', 'write']), ''.join(rng.choice(TEXT) for _ in range(rng.randint(1, 10)))]
                for _ in range(rng.randint(1, 3))]
    return {'tr': tr, 'enc': enc, 'logs': logs, 'shared': shared, 'ops': ops, 'late': late}


def one(case, acc):
    acc.case()
    acc.count('cases')
    tr, enc = case['tr'], case['enc']
    acc.count('transport_' + tr)
    acc.count('unicode_cases' if enc else 'bytes_cases')
    st = str if enc else bytes
    L = Link(tr, encoding=enc, timeout=10)
    try:
        c = L.child
        if tr == 'pty':
            c.delaybeforesend = None
            cc = termios.tcgetattr(c.child_fd)[6]
            veof, vintr = cc[termios.VEOF], cc[termios.VINTR]
        journal = []
        objs = {}
        if case['shared']:
            one_obj = Rec('shared', journal)
            for nm in case['logs']:
                objs[nm] = one_obj
        else:
            for nm in case['logs']:
                objs[nm] = Rec(nm, journal)
        for nm, o in objs.items():
            setattr(c, nm, o)
        # API events in order
        events = []
        orig_read = c.read_nonblocking

        def rd(*a, **k):
            j0 = len(journal)
            r = orig_read(*a, **k)
            events.append(('read', r, j0, len(journal)))
            return r
        c.read_nonblocking = rd

        def api(x):
            return x if enc else x.encode('utf-8')

        def sent(text, j0):
            events.append(('send', text, j0, len(journal)))
        sentinel_n = [0]
        for op in case['ops']:
            k = op[0]
            j0 = len(journal)
            if k == 'peer':
                data = bytes.fromhex(op[1])
                a = 0
                for cpos in op[2] + [len(data)]:
                    L.peer_write(data[a:cpos])
                    a = cpos
                    how = op[3]
                    if tr == 'popen':
                        t0 = time.time()
                        while c._read_queue.empty() and time.time() - t0 < 5:
                            time.sleep(0.0005)
                    try:
                        if how == 'read_nonblocking':
                            c.read_nonblocking(4096, 2)
                        elif how == 'read_small':
                            # less than what is waiting: the rest is delivered (and must be logged) later
                            c.read_nonblocking(1 + (len(data) % 3), 2)
                        elif how == 'expect0':
                            c.expect_exact([api('\x01NEVER')], timeout=0)
                        elif how == 'expect_short':
                            c.expect([api('\x01NEVER')], timeout=0.01)
                        else:
                            pass
                    except TIMEOUT:
                        pass
                if op[3] == 'sentinel':
                    sentinel_n[0] += 1
                    tag = ('\x02S%d\x03' % sentinel_n[0])
                    L.peer_write(tag.encode('ascii'))
                    c.expect_exact(api(tag), timeout=10)
            elif k in ('send', 'write', 'sendline'):
                arg = op[1].encode('utf-8') if op[2] else op[1]
                text = api(op[1])
                if k == 'sendline':
                    c.sendline(arg)
                    text = text + api(os.linesep)
                elif k == 'send':
                    c.send(arg)
                else:
                    c.write(arg)
                sent(text, j0)
            elif k == 'writelines':
                args = [(s.encode('utf-8') if op[2] else s) for s in op[1]]
                c.writelines(args)
                sent(api('').join(api(s) for s in op[1]), j0)
            elif k == 'sendcontrol':
                c.sendcontrol(op[1])
                b = bytes([CTRL[op[1].lower()]])
                sent(b.decode(enc, 'replace') if enc else b, j0)
            elif k == 'sendeof':
                c.sendeof()
                b = veof if isinstance(veof, bytes) else bytes([veof])
                sent(b.decode(enc, 'replace') if enc else b, j0)
            elif k == 'sendintr':
                c.sendintr()
                b = vintr if isinstance(vintr, bytes) else bytes([vintr])
                sent(b.decode(enc, 'replace') if enc else b, j0)
        L.peer_close()
        try:
            c.expect(EOF, timeout=10)
        except TIMEOUT:
            raise PeerError('no EOF after the peer closed')
        if case.get('late'):
            L.peer_gone()
            for kind, pay in case['late']:
                j0 = len(journal)
                text = api(pay) + (api(os.linesep) if kind == 'sendline' else api(''))
                try:
                    getattr(c, kind)(api(pay))
                    acc.count('late_sends_accepted')
                except (OSError, ExceptionPexpect, ValueError) as e:
                    acc.count('late_sends_refused')
                    acc.seen('late_send_errors', tr + ':' + type(e).__name__)
                sent(text, j0)
        return judge(case, acc, journal, events, objs, st)
    finally:
        L.cleanup()


def judge(case, acc, journal, events, objs, st):
    def v(mech, detail):
        acc.violation(mech + ':' + case['tr'], '%s/%s logs=%s%s: %s' % (
            case['tr'], case['enc'] or 'bytes', '+'.join(case['logs']), ' (one shared object)' if case.get('shared') else '',
            detail), case)
        return False
    acc.count('log_writes_seen', sum(1 for e in journal if e[0] == 'w'))
    acc.count('read_events', sum(1 for e in events if e[0] == 'read'))
    acc.count('send_events', sum(1 for e in events if e[0] == 'send'))
    # string type of everything written
    for e in journal:
        if e[0] == 'w' and not isinstance(e[2], st):
            return v('log-wrong-string-type', '%s.write(%r): %s in %s mode' % (e[1], e[2], type(e[2]).__name__,
                                                                                 'unicode' if case['enc'] else 'bytes'))
    # flush discipline: within the journal slice of every API event each write is followed by a flush of that object
    for ev in events:
        seg = journal[ev[2]:ev[3]]
        pending = {}
        for e in seg:
            if e[0] == 'w':
                if pending.get(e[1]):
                    return v('log-write-without-flush', 'two writes to %s without a flush in between during %s' % (e[1], ev[0]))
                pending[e[1]] = True
            else:
                pending[e[1]] = False
        acc.count('flush_checks')
        if any(pending.values()):
            return v('log-write-without-flush', '%s returned with an unflushed write to %s' % (
                ev[0], [k for k, x in pending.items() if x]))
    empty = st()
    # per event: what is written to the read log while a read runs is exactly what that read delivers
    # (text that is only buffered inside the object has not been delivered yet)
    if not case.get('shared'):
        for ev in events:
            if ev[0] != 'read':
                continue
            for nm in ('logfile_read', 'logfile'):
                if nm in objs:
                    logged = empty.join(x[2] for x in journal[ev[2]:ev[3]] if x[0] == 'w' and x[1] == nm)
                    acc.count('per_read_log_checks')
                    if logged != ev[1]:
                        return v('log-not-what-the-read-delivered', 'a read returned %r while %s received %r' % (
                            ev[1], nm, logged))
    reads = empty.join(e[1] for e in events if e[0] == 'read')
    sends = empty.join(e[1] for e in events if e[0] == 'send')
    both = empty.join(e[1] for e in events)

    def content(name):
        return empty.join(e[2] for e in journal if e[0] == 'w' and e[1] == name)
    if case.get('shared'):
        # one object in several roles receives every role's copy of every
        # logged piece, in operation order: within each API event the writes
        # come in groups of n equal pieces whose heads spell the event's text
        covered = 0
        for e in events:
            n = 0
            if 'logfile' in case['logs']:
                n += 1
            if e[0] == 'read' and 'logfile_read' in case['logs']:
                n += 1
            if e[0] == 'send' and 'logfile_send' in case['logs']:
                n += 1
            writes = [x[2] for x in journal[e[2]:e[3]] if x[0] == 'w']
            covered += len(writes)
            if n == 0:
                if writes:
                    return v('shared-log-differs', 'unexpected writes %r during %s' % (writes, e[0]))
                continue
            heads = []
            if len(writes) % n:
                return v('shared-log-differs', '%d writes for an event logged in %d roles: %r' % (len(writes), n, writes))
            for i in range(0, len(writes), n):
                if any(w != writes[i] for w in writes[i:i + n]):
                    return v('shared-log-differs', 'copies differ: %r' % (writes[i:i + n],))
                heads.append(writes[i])
            if empty.join(heads) != e[1]:
                return v('shared-log-differs', '%s event %r logged as %r' % (e[0], e[1], heads))
        if covered != sum(1 for x in journal if x[0] == 'w'):
            return v('shared-log-differs', 'writes outside any API event')
    else:
        if 'logfile_read' in objs and content('logfile_read') != reads:
            return v('logfile_read-differs', 'logfile_read %r, delivered text %r' % (content('logfile_read'), reads))
        if 'logfile_send' in objs and content('logfile_send') != sends:
            return v('logfile_send-differs', 'logfile_send %r, sent text %r' % (content('logfile_send'), sends))
        if 'logfile' in objs and content('logfile') != both:
            return v('logfile-not-the-interleaving', 'logfile %r, operations in order give %r' % (content('logfile'), both))
    nr = sum(1 for e in events if e[0] == 'read' and e[1])
    ns = sum(1 for e in events if e[0] == 'send')
    if nr >= 2 and ns >= 2 and len(case['logs']) >= 2:
        acc.nontrivial('c11', case)
    if acc.evaluations <= 2:
        acc.sample(case)
    return True


def async_case(case, acc):
    """The asyncio read path (PatternWaiter.data_received): awaited expects, an await abandoned by cancellation
    (the transport keeps reading), output that arrives while no call is outstanding, then further awaits and EOF.
    logfile_read / logfile must receive exactly the text that is delivered (before+after of the calls + the
    final before), once, in order."""
    import asyncio
    from pexpect import fdpexpect
    acc.case()
    acc.count('cases')
    acc.count('async_cases')
    enc = case['enc']
    st = str if enc else bytes
    T = (lambda x: x) if enc else (lambda x: x.encode('utf-8'))
    r, w = os.pipe()
    wfd = [w]
    loop = asyncio.new_event_loop()
    asyncio.set_event_loop(loop)
    journal = []
    c = fdpexpect.fdspawn(r, encoding=enc, timeout=5)
    objs = {}
    for nm in case['logs']:
        objs[nm] = Rec(nm, journal)
        setattr(c, nm, objs[nm])
    delivered = st()
    written = b''
    n = [0]

    async def go():
        nonlocal delivered, written
        for step in case['steps']:
            k = step[0]
            if k == 'write':
                data = step[1].encode('utf-8')
                os.write(wfd[0], data)
                written += data
            elif k == 'mark':
                n[0] += 1
                tag = '<M%d>' % n[0]
                os.write(wfd[0], tag.encode())
                written += tag.encode()
                await c.expect_exact(T(tag), async_=True, timeout=5)
                delivered = delivered + c.before + c.after
            elif k == 'cancelled':
                # an await abandoned from outside: the read transport stays active with a finished future
                try:
                    await asyncio.wait_for(c.expect_exact(T('\x01never'), async_=True, timeout=5), step[1])
                except asyncio.TimeoutError:
                    pass
            elif k == 'idle':
                await asyncio.sleep(step[1])
        os.close(wfd[0])
        wfd[0] = None
        try:
            await c.expect_exact(T('\x01never'), async_=True, timeout=5)
        except EOF:
            pass
        delivered = delivered + c.before
    try:
        loop.run_until_complete(go())
        want = written.decode('utf-8') if enc else written
        where = 'asyncio %s logs=%s steps=%r' % (enc or 'bytes', '+'.join(case['logs']), [s0[0] for s0 in case['steps']])
        if delivered != want:
            # (a matter of C01/C14, reported there; here it only invalidates the comparison)
            acc.inconc('async history did not deliver the whole stream: %r vs %r' % (delivered[-30:], want[-30:]))
            return
        acc.count('log_writes_seen', sum(1 for e in journal if e[0] == 'w'))
        for nm in ('logfile_read', 'logfile'):
            if nm in objs:
                got = st().join(e[2] for e in journal if e[0] == 'w' and e[1] == nm)
                acc.count('per_read_log_checks')
                if got != want:
                    acc.violation('async-read-log-differs', '%s: %s holds %r, delivered text %r' % (
                        where, nm, got[-60:], want[-60:]), case)
                    return
        for e in journal:
            if e[0] == 'w' and not isinstance(e[2], st):
                acc.violation('log-wrong-string-type:async', '%s: %s.write(%s)' % (where, e[1], type(e[2]).__name__), case)
                return
        pend = {}
        for e in journal:
            if e[0] == 'w':
                if pend.get(e[1]):
                    acc.violation('log-write-without-flush:async', where, case)
                    return
                pend[e[1]] = True
            else:
                pend[e[1]] = False
        acc.count('flush_checks')
        if any(s0[0] == 'cancelled' for s0 in case['steps']):
            acc.nontrivial('c11a', case)
    finally:
        try:
            if c.async_pw_transport:
                c.async_pw_transport[1].close()
        except Exception:
            pass
        try:
            loop.run_until_complete(asyncio.sleep(0))
        except Exception:
            pass
        asyncio.set_event_loop(None)
        loop.close()
        for fd in (wfd[0], r):
            if fd is not None:
                try:
                    os.close(fd)
                except OSError:
                    pass


def gen_async(rng):
    steps = []
    for _ in range(rng.randint(2, 7)):
        x = rng.random()
        if x < 0.35:
            steps.append(['write', ''.join(rng.choice(TEXT) for _ in range(rng.randint(1, 10))).replace('\x00', 'z')])
        elif x < 0.6:
            steps.append(['mark'])
        elif x < 0.8:
            steps.append(['cancelled', 0.02])
            steps.append(['write', 'late-' + ''.join(rng.choice('abc\xe9') for _ in range(4))])
            steps.append(['idle', 0.03])
        else:
            steps.append(['idle', 0.01])
    steps.append(['mark'])
    return {'async': True, 'enc': rng.choice([None, 'utf-8']), 'steps': steps,
            'logs': rng.choice([['logfile_read'], ['logfile'], ['logfile', 'logfile_read']])}


def plan(tier, seed):
    n = 1200 if tier == 'quick' else 24000
    specs = [{'n': b - a, 'shard': i, 'seed': seed} for i, (a, b) in enumerate(split_range(n, 14))]
    specs.append({'async': True, 'n': 60 if tier == 'quick' else 1500, 'seed': seed, 'shard': 60})
    specs.append({'interact': True, 'n': 8 if tier == 'quick' else 80, 'seed': seed, 'shard': 50})
    specs.append({'interact': True, 'n': 8 if tier == 'quick' else 80, 'seed': seed, 'shard': 51})
    return specs


def run_shard(spec, acc):
    if 'replay' in spec:
        case = spec['replay']
        if case.get('interact'):
            from . import c15
            return c15.interact_log_case(case, acc)
        if case.get('async'):
            return async_case(case, acc)
        return guarded(case, acc)
    if spec.get('async'):
        rng = rng_for(spec['seed'], spec['shard'], 1114)
        for i in range(spec['n']):
            ac = gen_async(rng)
            try:
                with watchdog(60):
                    async_case(ac, acc)
            except CaseTimeout as e:
                second_attempt(acc, ac, lambda: async_case(ac, acc), 60, 'awaited history with logs did not finish within 60 s')
        return
    if spec.get('interact'):
        from . import c15
        rng = rng_for(spec['seed'], spec['shard'], 1115)
        for i in range(spec['n']):
            c15.interact_log_case(c15.gen_case(rng, for_log=True), acc)
        return
    rng = rng_for(spec['seed'], spec['shard'], 11)
    for i in range(spec['n']):
        guarded(gen_case(rng, ['pty', 'fd', 'socket', 'popen'][i % 4]), acc)


def guarded(case, acc):
    try:
        with watchdog(60):
            one(case, acc)
    except PeerError as e:
        acc.inconc('peer: %s' % e)
    except CaseTimeout as e:
        try:
            second_attempt(acc, case, lambda: one(case, acc), 60, 'logged history did not finish within 60 s')
        except PeerError as e2:
            acc.inconc('peer: %s' % e2)
