"""C17 pxssh login: secrets only when asked, success only at a prompt, else raises."""
import itertools
import json
import os
import re
import shutil
import signal
import tempfile
import time
import zlib

from pexpect import pxssh, ExceptionPexpect

from ..core.runner import split_range
from ..core.watchdog import watchdog, CaseTimeout
from ..monitors.expect_oracles import short
from ..workloads.gen_expect import rng_for
from ..workloads.puppetctl import PEERS, PY, PeerError

ID = 'C17'
LEVEL = 'exploration'
PAR = 32
RULE = ('server dialogues executed by a scripted fake ssh (steps: host-key question, password prompt ok/refused, passphrase '
        'prompt, permission denied, terminal-type question, banner text containing $ # password:, connection closed, silence, '
        'exit, shell state with sh/csh/zsh flavour and various prompts) x login options (auto_prompt_reset, '
        'sync_original_prompt, quiet, port, ssh_key=True, username or ssh_config): ALL dialogues up to the tier length over '
        'the step alphabet with default options + random dialogues of up to 7 steps with random options. From the transcript '
        'the fake records (every output, every input line, state changes, sequence numbers): the password is received only '
        'when its output since the previous input matches password_regex, at most once; "yes" only after the host-key '
        'question; login() True only if the shell state was entered (and the unique prompt set when reset is enabled), after '
        'which prompt() delimits echo <id> exactly, also for 2-3 commands typed ahead with outputs of up to 1.3 KB; every other dialogue ends in a pexpect exception within the configured '
        'timeouts. non-trivial = dialogue of >=2 steps; distinct by (dialogue, options)')
ASSUMPTIONS = ['a scripted client stands in for OpenSSH (no network); "direct answer to a password prompt" is defined on the '
               'transcript: the fake\'s output since the previously received line matches the password_regex in force',
               'login_timeout=1 s, instance timeout 2 s; set_unique_prompt has hard-coded 10 s steps; overall bound 75 s per login']
REQUIRED = ['dialogues', 'logins_true', 'logins_raised', 'password_deliveries_checked', 'yes_deliveries_checked',
            'prompt_delimit_checks', 'typed_ahead_delimit_checks', 'enumerated_dialogues']

FAKE = os.path.join(PEERS, 'fakessh.py')
PW = 's3cret-PW-9'
BANNERS = ['Welcome to h\n', 'Last login: Mon Jan 1\n', 'Cost: 5$ per hour\n', '### MOTD ###\n',
           'Your password: expires soon\n', 'ok\n']
PROMPTS = ['user@h:~$ ', '# ', '% ', '> ', '[u@h ~]$ ']
STEP_ALPHA = [['hostkey'], ['password', True], ['password', False], ['password', 'quiet'], ['passphrase', True], ['denied'], ['terminal'],
              ['banner', 'Cost: 5$ per hour\n'], ['banner', 'Your password: expires soon\n'], ['closed'], ['silence', 3.5],
              ['exit', 0], ['shell', 'sh', 'user@h:~$ '], ['shell', 'csh', '% '], ['shell', 'zsh', 'h# ']]
# deterministic minimum cases (both tiers): (steps, option overrides)
FIXED = [
    ([['password', False], ['password', True], ['shell', 'sh', 'user@h:~$ ']], {}),        # a second password prompt
    ([['password', False], ['password', False], ['denied']], {}),
    ([['password', 'quiet'], ['password', True], ['shell', 'sh', 'user@h:~$ ']], {}),      # asked again without a refusal text
    ([['password', 'quiet'], ['password', 'quiet'], ['password', 'quiet'], ['exit', 1]], {}),
    ([['hostkey'], ['passphrase', 'quiet'], ['passphrase', True], ['shell', 'sh', '$ ']], {'auto_prompt_reset': False, 'sync_original_prompt': False}),
    ([['hostkey'], ['hostkey'], ['shell', 'sh', '$ ']], {}),                               # the host-key question twice
    ([['terminal'], ['hostkey'], ['password', True], ['shell', 'sh', '$ ']], {}),
    ([['password', True], ['shell', 'weird', 'user@h:~$ ']], {}),                           # no prompt-setting command works
    ([['shell', 'weird', '> ']], {'sync_original_prompt': False}),
    ([['denied']], {'auto_prompt_reset': False, 'sync_original_prompt': False}),            # refusal, nothing prompt-like
    ([['password', True], ['denied']], {'auto_prompt_reset': False, 'sync_original_prompt': False}),
    ([['closed']], {'auto_prompt_reset': False, 'sync_original_prompt': False}),
    ([['password', True], ['mute', 6]], {'auto_prompt_reset': False}),                      # silent and no echo: sync must fail
    ([['mute', 6]], {'auto_prompt_reset': False}),
    ([['password', True], ['banner', 'Welcome\n'], ['shell', 'sh', 'user@h:~$ ']], {'auto_prompt_reset': False}),
    ([['hostkey'], ['passphrase', True], ['shell', 'csh', '% ']], {}),
    ([['password', True], ['terminal'], ['shell', 'zsh', 'h# ']], {}),
    ([['terminal'], ['terminal'], ['shell', 'sh', '$ ']], {}),                              # the terminal question twice
    ([['password', True], ['terminal'], ['terminal'], ['shell', 'sh', '$ ']], {}),
    ([['hostkey'], ['terminal'], ['password', True], ['terminal'], ['shell', 'sh', '$ ']], {}),
    ([['password', True], ['banner', 'Last login: today\n'], ['shell', 'sh', 'user@h:~$ ']], {'quiet': False, 'port': 2222}),
    ([['hostkey'], ['password', True], ['shell', 'csh', 'h> ']], {'ssh_key': True}),
    # a narrowed password_regex (as the documentation advises) against a banner that mentions "password:", in a process
    # in which another session has logged in with the defaults before
    ([['banner', 'Notice: your password: expires in 3 days\n'], ['silence', 1.2], ['password', True], ['shell', 'sh', '$ ']],
     {'password_regex': "(?i)user@h's password: ", 'earlier_login': True}),
    ([['hostkey'], ['banner', 'password: policy reminder\n'], ['silence', 1.2], ['password', True], ['shell', 'csh', 'h% ']],
     {'password_regex': "(?i)user@h's password: ", 'earlier_login': True, 'enc': 'utf-8'}),
    # the answers to the empty lines of the synchronisation step differ in length (a one-off notice before one prompt)
    ([['password', True], ['replies', '$ ', ['$ ', '$ ', 'You have new mail in /var/mail/me\n$ ', '$ ']], ['shell', 'sh', '$ ']], {}),
    ([['password', True], ['replies', '$ ', ['$ ', '$ ', 'h$ ', '$ ']], ['shell', 'sh', '$ ']], {}),
    ([['password', True], ['replies', '$ ', ['$ ', '$ ', '$ ', 'You have new mail in /var/mail/me\n$ ']], ['shell', 'sh', '$ ']], {}),
    ([['replies', 'menu# ', ['Invalid selection, try again: ', 'Invalid selection, last attempt: ', 'Invalid selection, last attempt: ', 'Console locked.']], ['exit', 1]], {}),
    ([['password', True], ['replies', 'user@h:~$ ', ['user@h:~$ ', 'user@h:~$ ', '(mail) user@h:~$ ', 'user@h:~$ ']], ['shell', 'sh', 'user@h:~$ ']],
     {'auto_prompt_reset': False}),
]


def gen_case(rng):
    n = rng.randint(1, 7)
    steps = []
    if rng.random() < 0.5:
        # a plausible successful login
        if rng.random() < 0.4:
            steps.append(['banner', rng.choice(BANNERS)])
        if rng.random() < 0.4:
            steps.append(['hostkey'])
        steps.append(rng.choice([['password', True], ['passphrase', True], ['password', True]]))
        if rng.random() < 0.3:
            steps.append(['terminal'])
        if rng.random() < 0.4:
            steps.append(['banner', rng.choice(BANNERS)])
        steps.append(['shell', rng.choice(['sh', 'sh', 'csh', 'zsh']), rng.choice(PROMPTS)])
    else:
        for _ in range(n):
            st = list(rng.choice(STEP_ALPHA))
            if st[0] == 'banner':
                st[1] = rng.choice(BANNERS)
            if st[0] == 'shell':
                st[2] = rng.choice(PROMPTS)
            steps.append(st)
    opts = {'auto_prompt_reset': rng.random() < 0.8, 'sync_original_prompt': rng.random() < 0.8,
            'quiet': rng.random() < 0.5, 'port': rng.choice([None, None, 2222]), 'ssh_key': rng.choice([None, None, True]),
            'use_config': rng.random() < 0.15, 'enc': rng.choice([None, 'utf-8'])}
    return {'steps': steps, 'opts': opts}


def default_opts():
    return {'auto_prompt_reset': True, 'sync_original_prompt': True, 'quiet': True, 'port': None, 'ssh_key': None,
            'use_config': False, 'enc': None}


def one(case, acc):
    acc.case()
    acc.count('dialogues')
    if case.get('enum'):
        acc.count('enumerated_dialogues')
    tmp = tempfile.mkdtemp(prefix='pvmon-c17-')
    s = None
    try:
        sp, tp = os.path.join(tmp, 'script.json'), os.path.join(tmp, 'transcript.jsonl')
        with open(sp, 'w') as f:
            json.dump(case['steps'], f)
        o = case['opts']
        s = pxssh.pxssh(timeout=2, encoding=o['enc'])
        kw = dict(password=PW, login_timeout=1, auto_prompt_reset=o['auto_prompt_reset'],
                  sync_original_prompt=o['sync_original_prompt'], quiet=o['quiet'], port=o['port'], ssh_key=o['ssh_key'],
                  cmd='%s -S -E %s %s %s' % (PY, FAKE, sp, tp))
        if o.get('password_regex'):
            kw['password_regex'] = o['password_regex']
            acc.count('custom_password_regex_logins')
        if o.get('earlier_login'):
            # another session object of this process has logged in before, with the default options: nothing of
            # that is any business of this session
            sp0, tp0 = os.path.join(tmp, 'script0.json'), os.path.join(tmp, 'transcript0.jsonl')
            with open(sp0, 'w') as f:
                json.dump([['password', True], ['shell', 'sh', '$ ']], f)
            # (generous limits: this login only sets the scene, and pxssh's prompt synchronisation is sensitive to a
            # loaded machine)
            s0 = pxssh.pxssh(timeout=10, encoding=o['enc'])
            try:
                s0.login('h', username='user', password=PW, login_timeout=10, sync_multiplier=3,
                         cmd='%s -S -E %s %s %s' % (PY, FAKE, sp0, tp0))
            except ExceptionPexpect as e0:
                raise PeerError('the earlier default login failed: %s' % e0)
            finally:
                try:
                    s0.close(force=True)
                except Exception:
                    pass
        if o['use_config']:
            cfg = os.path.join(tmp, 'ssh_config')
            with open(cfg, 'w') as f:
                f.write('Host h\n  HostName 1.2.3.4\n  User user\n')
            kw['ssh_config'] = cfg
        else:
            kw['username'] = 'user'
        ret = exc = None
        # second observation point, at the API boundary: what login() hands to send() - the fake may be torn
        # down before it has read (and recorded) the last line
        sends = []
        orig_send = s.send

        def send(data):
            sends.append((len(read_transcript(tp)), data))
            return orig_send(data)
        s.send = send
        t0 = time.time()
        try:
            ret = s.login('h', **kw)
        except CaseTimeout:
            raise
        except BaseException as e:
            exc = e
        dt = time.time() - t0
        tr = read_transcript(tp)      # what the fake had recorded when login() came back
        desc = 'dialogue %s options %s: login() %s after %.1f s' % (
            json.dumps(case['steps']), {k: v for k, v in o.items() if v not in (None, False) or k == 'auto_prompt_reset'},
            ('returned %r' % (ret,)) if exc is None else 'raised %s(%s)' % (type(exc).__name__, str(exc)[:80]), dt)

        def v(mech, detail=''):
            acc.violation(mech, desc + ('; ' + detail if detail else ''), case)
            return False
        # --- secrets and 'yes' only when asked
        since = ''
        npw = 0
        for e in tr:
            if e[1] == 'out':
                since += e[2]
            elif e[1] in ('in', 'secret', 'cmd'):
                if e[2] == PW:
                    npw += 1
                    acc.count('password_deliveries_checked')
                    if not re.search(o.get('password_regex') or r'(?i)(?:password:)|(?:passphrase for key)', since):
                        return v('password-sent-without-prompt', 'the fake received the password although its output since the '
                                 'previous input was %r' % since[-80:])
                    if npw > 1:
                        return v('password-sent-twice')
                if e[2] == 'yes':
                    acc.count('yes_deliveries_checked')
                    if not re.search(r'(?i)are you sure you want to continue connecting', since):
                        return v('yes-sent-without-hostkey-question', 'output since the previous input: %r' % since[-80:])
                since = ''
        # the same two clauses on what was handed to send()
        prev = 0
        npw2 = 0
        for idx, data in sends:
            text = data if isinstance(data, str) else data.decode('utf-8', 'replace')
            line = text.rstrip('\r\n')
            outs = ''.join(e[2] for e in tr[prev:idx] if e[1] == 'out') if idx <= len(tr) else ''
            # what the fake had said, at the moment of the send, since the last line it had read (the fake notes its
            # output before writing it, so a prompt that pexpect has seen is in the transcript by now)
            upto = tr[:idx] if idx <= len(tr) else tr
            last_in = max([j for j, e in enumerate(upto) if e[1] in ('in', 'secret', 'cmd')] or [-1])
            since2 = ''.join(e[2] for e in upto[last_in + 1:] if e[1] == 'out')
            if line == PW:
                npw2 += 1
                acc.count('password_deliveries_checked')
                if npw2 > 1:
                    return v('password-sent-twice', 'login() handed the password to send() %d times' % npw2)
                if not re.search(o.get('password_regex') or r'(?i)(?:password:)|(?:passphrase for key)', since2):
                    return v('password-sent-without-prompt', 'login() sent the password when the fake had said, since the last '
                             'line it read, only %r' % since2[-80:])
            if line == 'yes' and not re.search(r'(?i)are you sure you want to continue connecting', since2):
                return v('yes-sent-without-hostkey-question', 'at the moment of the send the fake had said %r' % since2[-80:])
            prev = idx
        shell = any(e[1] == 'shell-entered' for e in tr)
        pset = any(e[1] == 'prompt-set' for e in tr)
        # --- outcome
        if exc is not None:
            acc.count('logins_raised')
            if not isinstance(exc, ExceptionPexpect):
                return v('login-raises-foreign:' + type(exc).__name__)
        elif ret is True:
            acc.count('logins_true')
            if not shell:
                outtext = ''.join(e[2] for e in tr if e[1] == 'out')
                refused = re.search(r'(?i)permission denied|connection closed', outtext) is not None
                muted = any(e[1] == 'muted' for e in tr)
                promptlike = re.search(r'[#$]', outtext) is not None
                # classifier of the recorded finding: reset disabled, and the dialogue offered something that the
                # optimistic prompt detection can take for a prompt ([#$] in the output, or silence with tty echo);
                # a True after an explicit refusal without anything prompt-like, or from a server that is silent
                # AND does not echo, is something else
                mech = 'true-without-shell-prompt'
                # (the recorded finding is about a synchronisation step that is satisfied too easily; a login()
                # that was asked to synchronise and never sent its probing empty lines is a different matter)
                empties = sum(1 for _, d0 in sends if d0 in ('\n', b'\n'))
                if not o['auto_prompt_reset'] and o.get('sync_original_prompt', True) and empties < 3:
                    mech += '-and-without-synchronising'
                elif not o['auto_prompt_reset']:
                    if promptlike or not (refused or muted):
                        mech += '-reset-disabled'
                    elif refused:
                        mech += '-after-refusal'
                    else:
                        mech += '-silent-no-echo'
                return v(mech, 'the dialogue never reached a shell prompt')
            if o['auto_prompt_reset'] and not pset:
                return v('true-without-unique-prompt-set', 'the shell never accepted a prompt-setting command')
            # with the unique prompt set, prompt() must delimit each command's output exactly
            # (the property states this for the reset-enabled case only)
            T = (lambda x: x) if o['enc'] else (lambda x: x.encode())
            for k in range(3 if o['auto_prompt_reset'] else 0):
                ident = 'ID%d%s' % (k, os.urandom(4).hex())
                s.sendline('echo ' + ident)
                acc.count('prompt_delimit_checks')
                if not s.prompt(timeout=5):
                    return v('prompt-not-found-after-login', 'no prompt after echo %s (before=%r)' % (ident, s.before))
                want = T(ident + '\r\n')
                if s.before not in (want, T('echo ' + ident + '\r\n') + want):
                    return v('prompt-does-not-delimit-output', 'echo %s: before=%r' % (ident, s.before))
            if o['auto_prompt_reset']:
                # nothing outstanding: prompt() must say so (False) after its timeout and leave the session usable;
                # the next command goes through prompt() with the default timeout
                acc.count('idle_prompt_checks')
                if s.prompt(timeout=0.2) is not False:
                    return v('prompt-true-with-nothing-outstanding', 'prompt() returned True although no command was sent (before=%r)' % (short(s.before),))
                ident = 'IDLE' + os.urandom(4).hex()
                s.sendline('echo ' + ident)
                if not s.prompt():
                    return v('prompt-not-found-after-login', 'no prompt after echo %s with the default timeout (before=%r)' % (ident, short(s.before)))
                want = T(ident + '\r\n')
                if s.before not in (want, T('echo ' + ident + '\r\n') + want):
                    return v('prompt-does-not-delimit-output', 'after an idle prompt(): echo %s: before=%r' % (ident, short(s.before)))
            if o['auto_prompt_reset']:
                # commands typed ahead: their outputs (longer than any look-back a prompt search might use) are
                # already there, or arrive together, when prompt() is called once per command
                h = zlib.crc32(repr(case['steps']).encode())
                cmds = []
                for k in range(2 + h % 2):
                    ident = 'TA%d%s' % (k, os.urandom(3).hex())
                    n = [2, 12, 40, 150][(h >> (2 * k + 1)) % 4]
                    cmds.append((ident, n))
                    s.sendline('rep %d %s' % (n, ident))
                time.sleep([0.0, 0.3][(h >> 8) % 2])
                for k, (ident, n) in enumerate(cmds):
                    acc.count('typed_ahead_delimit_checks')
                    if not s.prompt(timeout=5):
                        return v('prompt-not-found-typed-ahead', 'command %d of %r (before=%r)' % (k, cmds, short(s.before)))
                    b = s.before if o['enc'] else s.before.decode('latin-1')
                    mine = '-'.join([ident] * n) + '\r\n'
                    for i2, n2 in cmds:
                        # the tty echo of the typed commands may land anywhere (it is produced when they are typed)
                        b = b.replace('rep %d %s\r\n' % (n2, i2), '')
                    if b != mine:
                        return v('prompt-does-not-delimit-output', 'typed ahead %r, prompt() #%d: before=%r' % (
                            cmds, k, short(b)))
        else:
            return v('login-returns-without-success-or-exception', 'returned %r' % (ret,))
        if dt > 75:
            return v('login-exceeds-timeouts')
        if len(case['steps']) >= 2:
            if case.get('enum'):
                acc.count('_distinct_by_construction')
            else:
                acc.nontrivial('c17', case)
        acc.seen('list:outcomes', ('True' if ret is True else type(exc).__name__ + ':' + str(exc)[:40]))
        if acc.evaluations <= 3:
            acc.sample(case)
        return True
    finally:
        try:
            if s is not None and not s.closed:
                s.close(force=True)
        except Exception:
            pass
        shutil.rmtree(tmp, ignore_errors=True)


def read_transcript(tp):
    out = []
    try:
        with open(tp) as f:
            for line in f:
                try:
                    out.append(json.loads(line))
                except ValueError:
                    pass
    except FileNotFoundError:
        pass
    return out


def plan(tier, seed):
    cases = []
    depth = 2 if tier == 'quick' else 3
    for d in range(1, depth + 1):
        for seq in itertools.product(STEP_ALPHA, repeat=d):
            if tier == 'quick' and d == 2 and (zlib.crc32(json.dumps(seq).encode()) + seed) % 4:
                continue
            if d == 3 and (zlib.crc32(json.dumps(seq).encode()) + seed) % 6:
                continue
            cases.append({'steps': [list(s) for s in seq], 'opts': default_opts(), 'enum': True})
    for steps, over in FIXED:
        o = default_opts()
        o.update(over)
        cases.append({'steps': steps, 'opts': o})
    # dialogues that never reach a shell, with prompt reset disabled (deterministic minimum cases)
    for steps in ([['silence', 3.5]], [['banner', 'Cost: 5$ per hour\n'], ['silence', 3.5]], [['terminal'], ['silence', 3.5]],
                  [['password', True], ['silence', 3.5]], [['banner', '### MOTD ###\n'], ['exit', 0]]):
        for sync in (True, False):
            o = default_opts()
            o['auto_prompt_reset'] = False
            o['sync_original_prompt'] = sync
            cases.append({'steps': steps, 'opts': o})
    import random
    rng = random.Random(seed * 17 + 3)
    for _ in range(40 if tier == 'quick' else 800):
        cases.append(gen_case(rng))
    rng.shuffle(cases)
    return [{'cases': cases[a:b], 'shard': i} for i, (a, b) in enumerate(split_range(len(cases), 32))]


def guarded(case, acc):
    try:
        with watchdog(120):
            one(case, acc)
    except CaseTimeout as e:
        acc.violation('login-does-not-return', 'login did not finish within 120 s (%s): %s' % (e, json.dumps(case['steps'])), case)
    except PeerError as e:
        # the scene could not be set (not an observation about the session under test)
        acc.inconc('peer: %s' % e)


def run_shard(spec, acc):
    signal.signal(signal.SIGHUP, signal.SIG_DFL)
    if 'replay' in spec:
        return guarded(spec['replay'], acc)
    for case in spec['cases']:
        guarded(case, acc)
