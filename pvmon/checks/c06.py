"""C06 transport fidelity: all peer output delivered once, in order, before EOF.

H4: the peer is a puppet driven through FIFOs; the reader's system-call sites
are wrapped so that the peer's actions (write / close / exit) are performed and
awaited *between two specific system calls* of the reader.  All placements of
the plan's actions among the first n sites are enumerated.
"""
import itertools
import os
import signal
import socket
import sys
import time

import pexpect
import pexpect.fdpexpect
import pexpect.pty_spawn
import pexpect.spawnbase
from pexpect import EOF, TIMEOUT
from pexpect.popen_spawn import PopenSpawn

from ..core.runner import split_range
from ..core.watchdog import watchdog, CaseTimeout
from ..core.acc import second_attempt, confirmed
from ..workloads.gen_expect import rng_for
from ..workloads.puppetctl import Puppet, PeerError, wait_state, fd_readable, proc_stat

ID = 'C06'
LEVEL = 'fault_enumeration'
RULE = ('(i) pty transport: plans [W,X] [W,W,X] [W,C,X] [W,W,C,X] [C,X] [X] (W = write a block of unique position-dependent ids, '
        'C = close the terminal but stay alive, X = exit): EVERY placement of the actions among the first n reader system '
        'calls (readiness poll, read, child-status check, timed wait; n per tier) is enumerated, the action being performed '
        'and awaited (ack + data readable on the master / zombie in /proc) just before that call executes; readers '
        '{read_nonblocking(size, 50 ms) retried on TIMEOUT, expect(EOF)} x sizes {1, 7, 2000, 65536} x select/poll. (ii) bulk: '
        '0 B..512 KB written in random splits followed by immediate exit/close on pty, fd, socket and popen transports, '
        'maxread in {1, 64, 2000, 10000, 65536, 1 MB} (incl. fixed 300 KB runs with maxread between one kernel read and the whole stream). (iii) fd and socket transports in-process with peer actions placed at the '
        'reader\'s select/read/recv sites, in bytes mode and in text mode with multi-byte characters and read sizes 1..7. (iv) PopenSpawn: peer actions placed among the system calls of the reader thread (pipe read and, whatever the code under test uses, readiness polls and child-status checks), and schedule perturbation (switch interval 10 us, seeded '
        'yields in the reader thread). Oracle: concatenated results == blocks the peer was acknowledged to have written '
        '(prefix before EOF, equal at EOF), every result <= size, socket timeout unchanged after every call. non-trivial '
        '= placement with an action at a site > 0, or bulk >= 4 KB; distinct by (plan, placement, reader, size, poll)')
ASSUMPTIONS = ['kernel pty/pipe/socket ordering is trusted; the harness waits until written data is readable on the master before the '
               'reader continues, so "between system call k and k+1" is exact',
               'TIMEOUT is never treated as EOF by the reader loops']
REQUIRED = ['placements', 'popen_placements', 'text_mode_placements', 'traces_recorded', 'bulk_runs', 'inproc_placements', 'popen_runs', 'results_checked_le_size',
            'socket_timeout_checks', 'eof_checks', 'async_model_calls', 'async_model_idle_chunks']

TEXT_FOR = {'utf-8': '\xe9\u20ac\u65e5', 'shift_jis': '\u8868\u65e5', 'gbk': '\u9555\u65e5', 'big5': '\u529f\u65e5'}
PLANS = [['W', 'X'], ['W', 'W', 'X'], ['W', 'C', 'X'], ['W', 'W', 'C', 'X'], ['C', 'X'], ['X']]


def block(i, n):
    return b''.join(b'%07x;' % ((i << 16) + j) for j in range(n))


class Sites(object):
    """Counts the reader's system-call sites and runs the peer actions that
    are due before a site executes."""

    def __init__(self, schedule, perform):
        self.schedule = list(schedule)      # [(site_index, action_no)] non-decreasing
        self.perform = perform
        self.idx = 0
        self.trace = []
        self.before_action = []

    def at(self, name):
        while self.schedule and self.schedule[0][0] <= self.idx:
            _, a = self.schedule.pop(0)
            self.before_action.append((a, name))
            self.perform(a)
        self.trace.append(name)
        self.idx += 1

    def flush(self):
        while self.schedule:
            _, a = self.schedule.pop(0)
            self.perform(a)


def pty_placement(case, acc):
    plan, placement = case['plan'], case['placement']
    size, poll, reader = case['size'], case['poll'], case['reader']
    pup = Puppet()
    child = None
    written = []
    state = {'closed': False, 'exited': False}
    saved = []
    try:
        child = pexpect.spawn(pup.argv[0], pup.argv[1:], timeout=5, maxread=size, use_poll=poll)
        child.delayafterclose = child.delayafterterminate = 0.02
        pid = pup.wait_ready()
        if case.get('holder'):
            # a grandchild keeps the terminal open: the master never sees a hang-up, the end of the stream is decided
            # by the child-status checks alone
            state['holder'] = int(pup.cmd('H 60', 'h '))
            acc.count('pty_placements_with_terminal_holder')

        def perform(a):
            act = plan[a]
            if act == 'W':
                data = block(a, case.get('blocklen', 3))
                pup.write(data)
                written.append(data)
                if not fd_readable(child.child_fd, 10):
                    raise PeerError('written block not readable on the master')
            elif act == 'C':
                pup.close_stdio()
                state['closed'] = True
                # the hang-up must be visible on the master before the reader goes on
                t0 = time.time()
                while time.time() - t0 < 5 and not fd_readable(child.child_fd, 0.01):
                    pass
                # a peer that hung up exits "soon" by itself: the reader may block in a child-status
                # check until it does (known finding of C05), so the exit cannot wait for a later site
                import threading

                def later():
                    try:
                        if not state['exited'] and not state.get('done'):
                            state['exited'] = True
                            pup.cmd('X 0')
                    except Exception:
                        pass
                th = threading.Timer(0.2, later)
                th.daemon = True
                state['timer'] = th
                th.start()
            elif act == 'X':
                if not state['exited']:
                    state['exited'] = True
                    pup.cmd('X 0')
                wait_state(pid, ('Z', None))
        sites = Sites([(s, a) for a, s in enumerate(placement)], perform)
        # wrap the reader's system-call sites
        ps, sb = pexpect.pty_spawn, pexpect.spawnbase

        def wrap_fn(mod, name, tag):
            orig = getattr(mod, name)

            def w(*a, **k):
                t = a[-1] if name == 'poll_ignore_interrupts' or len(a) >= 4 else k.get('timeout')
                sites.at(tag + ('0' if t == 0 else 'T'))
                return orig(*a, **k)
            saved.append((mod, name, orig))
            setattr(mod, name, w)
        wrap_fn(ps, 'select_ignore_interrupts', 'select')
        wrap_fn(ps, 'poll_ignore_interrupts', 'poll')
        real_os = sb.os

        class OsProxy(object):
            def read(self, fd, n):
                if fd == child.child_fd:
                    sites.at('read')
                return real_os.read(fd, n)

            def __getattr__(self, nm):
                return getattr(real_os, nm)
        saved.append((sb, 'os', real_os))
        sb.os = OsProxy()
        orig_alive = child.ptyproc.isalive

        def alive():
            sites.at('isalive')
            return orig_alive()
        child.ptyproc.isalive = alive

        got = b''
        eof = False
        if reader == 'loop':
            for _ in range(4000):
                try:
                    d = child.read_nonblocking(size, 0.05)
                except TIMEOUT:
                    if not sites.schedule and not (state['closed'] or state['exited']):
                        sites.flush()
                    continue
                except EOF:
                    eof = True
                    break
                acc.count('results_checked_le_size')
                if len(d) > size:
                    acc.violation('read-longer-than-size:pty', 'read_nonblocking(%d) returned %d bytes' % (size, len(d)), case)
                    return
                got += d
        else:
            for _ in range(40):
                try:
                    child.expect(EOF, timeout=0.3)
                    eof = True
                    break
                except TIMEOUT:
                    if not sites.schedule and not (state['closed'] or state['exited']):
                        sites.flush()
            got = child.before
        want = b''.join(written)
        acc.count('eof_checks')
        tr = ' '.join(sites.trace[:24])
        acc.seen('distinct_traces', tr + '|' + repr(sites.before_action))
        acc.count('traces_recorded')
        for a, nm in sites.before_action:
            acc.seen('list:site_preceding_action', '%s before %s' % (plan[a], nm))
        desc = 'plan %s placed at sites %r (%s), reader %s size %d %s; trace: %s' % (
            ''.join(plan), placement, ', '.join('%s before %s' % (plan[a], nm) for a, nm in sites.before_action),
            reader, size, 'poll' if poll else 'select', tr)
        if eof and not (state['closed'] or state['exited']):
            acc.violation('eof-while-peer-alive:pty', desc + '; EOF reported although the peer had neither closed nor exited', case)
            return
        if sites.schedule:
            # the reader finished before every action was placed: nothing to judge beyond the prefix law
            if not want.startswith(got):
                acc.violation('data-corrupted:pty', desc + ' got %r want prefix of %r' % (got[-40:], want[-40:]), case)
            return
        if not eof:
            acc.violation('no-eof-after-peer-ended:pty', desc, case)
            return
        if got != want:
            if want.startswith(got):
                mech = 'eof-before-all-data:pty'
            elif got.startswith(want):
                mech = 'data-duplicated:pty'
            else:
                mech = 'data-corrupted:pty'
            acc.violation(mech, desc + '; returned %d of %d bytes: ...%r, written ...%r' % (
                len(got), len(want), got[-24:], want[-24:]), case)
            return
        if any(s > 0 for s in placement):
            acc.count('_distinct_by_construction')
    finally:
        state['done'] = True
        if state.get('timer') is not None:
            state['timer'].cancel()
            state['timer'].join(2)
        for mod, name, orig in reversed(saved):
            setattr(mod, name, orig)
        if child is not None:
            try:
                child.ptyproc.isalive = orig_alive
            except Exception:
                pass
            try:
                child.close(force=True)
            except Exception:
                pass
        if state.get('holder'):
            try:
                os.kill(state['holder'], signal.SIGKILL)
            except OSError:
                pass
        pup.cleanup()


def placements(k, n):
    return itertools.combinations_with_replacement(range(n + 1), k)


# ------------------------------------------------------- in-process fd / socket

def inproc_placement(case, acc):
    """fdspawn on a pipe / SocketSpawn on a socketpair; peer actions W.., close
    placed at the reader's select / read / recv sites."""
    tr, plan, placement, size, poll = case['tr'], case['plan'], case['placement'], case['size'], case['poll']
    enc = case.get('enc')
    written = []
    saved = []
    if tr == 'fd':
        r, w = os.pipe()
        wfd = [w]
        child = pexpect.fdpexpect.fdspawn(r, timeout=5, maxread=size, use_poll=poll, encoding=enc)
        sock = None
    else:
        a, b = socket.socketpair()
        a.settimeout(12.5)
        from pexpect.socket_pexpect import SocketSpawn
        sock = a
        wfd = [b]

    def perform(i):
        act = plan[i]
        if act == 'W':
            data = block(i, 3)
            if enc:
                # text mode: multi-byte characters, so that a small read can hold only part of a character
                # (for the double-byte encodings: a character whose second byte lies in the ASCII range)
                data = ('%d%s;' % (i, TEXT_FOR.get(enc, TEXT_FOR['utf-8']))).encode(enc) * 2
            written.append(data)
            if tr == 'fd':
                os.write(wfd[0], data)
            else:
                wfd[0].sendall(data)
        else:
            if tr == 'fd':
                os.close(wfd[0])
            else:
                wfd[0].shutdown(socket.SHUT_WR)
            wfd[0] = None
    sites = Sites([(s, i) for i, s in enumerate(placement)], perform)
    try:
        if tr == 'fd':
            fp, sb = pexpect.fdpexpect, pexpect.spawnbase
            for name in ('select_ignore_interrupts', 'poll_ignore_interrupts'):
                orig = getattr(fp, name)

                def w(*a2, _o=orig, _n=name, **k):
                    sites.at('select' if _n.startswith('select') else 'poll')
                    return _o(*a2, **k)
                saved.append((fp, name, orig))
                setattr(fp, name, w)
            real_os = sb.os

            class OsProxy(object):
                def read(self, fd, n):
                    if fd == r:
                        sites.at('read')
                    return real_os.read(fd, n)

                def __getattr__(self, nm):
                    return getattr(real_os, nm)
            saved.append((sb, 'os', real_os))
            sb.os = OsProxy()
        else:
            class SockProxy(object):
                def __init__(self, s):
                    self._s = s

                def recv(self, n):
                    sites.at('recv')
                    return self._s.recv(n)

                def __getattr__(self, nm):
                    return getattr(self._s, nm)
            child = SocketSpawn(SockProxy(sock), timeout=5, maxread=size, encoding=enc)
        got = '' if enc else b''
        eof = False
        for _ in range(3000):
            try:
                d = child.read_nonblocking(size, 0.02)
            except TIMEOUT:
                if sock is not None:
                    acc.count('socket_timeout_checks')
                    if sock.gettimeout() != 12.5:
                        acc.violation('socket-timeout-not-restored', 'after a TIMEOUT the socket timeout is %r' % sock.gettimeout(), case)
                        return
                if not sites.schedule and wfd[0] is not None:
                    break
                continue
            except EOF:
                eof = True
                break
            acc.count('results_checked_le_size')
            if sock is not None:
                acc.count('socket_timeout_checks')
                if sock.gettimeout() != 12.5:
                    acc.violation('socket-timeout-not-restored', 'after a read the socket timeout is %r' % sock.gettimeout(), case)
                    return
            if len(d) > size:
                acc.violation('read-longer-than-size:' + tr, 'read_nonblocking(%d) returned %d bytes' % (size, len(d)), case)
                return
            got += d
        if sock is not None and eof:
            acc.count('socket_timeout_checks')
            if sock.gettimeout() != 12.5:
                acc.violation('socket-timeout-not-restored', 'after EOF the socket timeout is %r' % sock.gettimeout(), case)
                return
        want = b''.join(written)
        if enc:
            want = want.decode(enc)
            acc.count('text_mode_placements')
        acc.count('eof_checks')
        desc = '%s%s plan %s at %r size %d: ' % (tr, '/' + enc if enc else '', ''.join(plan), placement, size)
        if eof and wfd[0] is not None:
            acc.violation('eof-while-peer-alive:' + tr, desc + 'EOF reported although the peer had not closed', case)
            return
        if sites.schedule:
            if not want.startswith(got):
                acc.violation('data-corrupted:' + tr, desc + 'got %r' % got[-40:], case)
            return
        closed = wfd[0] is None
        if eof and not closed:
            acc.violation('eof-while-peer-alive:' + tr, desc + 'EOF reported although the peer had not closed', case)
            return
        if closed and not eof:
            acc.violation('no-eof-after-peer-ended:' + tr, desc + 'trace %s' % ' '.join(sites.trace[:20]), case)
            return
        if got != want:
            mech = 'eof-before-all-data' if want.startswith(got) else 'data-duplicated' if got.startswith(want) else 'data-corrupted'
            acc.violation(mech + ':' + tr, desc + 'returned %r written %r' % (got[-30:], want[-30:]), case)
            return
        acc.seen('distinct_traces', tr + ':' + ' '.join(sites.trace[:20]) + repr(sites.before_action))
        if any(s > 0 for s in placement):
            acc.count('_distinct_by_construction')
    finally:
        for mod, name, orig in reversed(saved):
            setattr(mod, name, orig)
        if tr == 'fd':
            if wfd[0] is not None:
                os.close(wfd[0])
            os.close(r)
        else:
            sock.close()
            b.close()


# ------------------------------------------------------------------ bulk

def bulk_case(case, acc):
    from ..workloads.transports import Link
    tr, total, size = case['tr'], case['total'], case['maxread']
    import random
    rng = random.Random(case['rs'])
    L = Link('pipe' if tr == 'fd' else tr, timeout=20, maxread=size)
    try:
        c = L.child
        if tr == 'socket':
            L.sock.settimeout(12.5)
        data = b''.join(b'%07x;' % i for i in range(total // 8)) + b'.' * (total % 8)
        pieces = []
        a = 0
        while a < len(data):
            n = rng.choice([1, 7, 100, 1024, 4096, 30000, 200000])
            pieces.append(data[a:a + n])
            a += n
        got = []

        def writer():
            # the peer writes on its own while the reader reads (a writer that waited for
            # the reader would dead-lock on the pty / pipe / socket buffer)
            try:
                if L.pup is not None:
                    for pc in pieces:
                        L.pup.cmd('W ' + pc.hex())
                    L.pup.cmd('X 0')
                else:
                    for pc in pieces:
                        L.peer_write_nowait(pc)
                    L.peer_close_nowait()
            except Exception:
                pass
        import threading
        th = threading.Thread(target=writer, daemon=True)
        th.start()
        eof = False
        if tr == 'popen' and case.get('wait_first', case['rs'] % 2 == 0):
            # the caller asks for the child's status first and reads afterwards; the reader thread is slowed down a
            # little (0.3 ms per pipe read), so it is still busy moving the last burst out of the pipe when wait()
            # comes back
            import pexpect.popen_spawn as pps

            class SlowOs(object):
                def read(self, fd, n):
                    time.sleep(0.0003)
                    return os.read(fd, n)

                def __getattr__(self, nm):
                    return getattr(os, nm)
            pps.os = SlowOs()
            try:
                acc.count('popen_wait_before_reading')
                c.wait()
            finally:
                pps.os = os
        t0 = time.time()
        if case['reader'] == 'expect':
            try:
                c.expect(EOF, timeout=30)
                eof = True
            except TIMEOUT:
                pass
            res = c.before
        else:
            chunks = []
            while time.time() - t0 < 60:
                try:
                    d = c.read_nonblocking(size, 0.5)
                except TIMEOUT:
                    continue
                except EOF:
                    eof = True
                    break
                acc.count('results_checked_le_size')
                if len(d) > size:
                    acc.violation('read-longer-than-size:' + tr, 'read_nonblocking(%d) returned %d bytes' % (size, len(d)), case)
                    return
                if tr == 'socket':
                    acc.count('socket_timeout_checks')
                    if L.sock.gettimeout() != 12.5:
                        acc.violation('socket-timeout-not-restored', 'socket timeout %r after a read' % L.sock.gettimeout(), case)
                        return
                chunks.append(d)
            res = b''.join(chunks)
        acc.count('eof_checks')
        acc.count('bulk_bytes', len(data))
        if not eof:
            acc.violation('no-eof-after-peer-ended:' + tr, 'bulk %d bytes maxread %d: no EOF' % (total, size), case)
            return
        if res != data:
            i = next((j for j in range(min(len(res), len(data))) if res[j] != data[j]), min(len(res), len(data)))
            mech = 'eof-before-all-data' if data.startswith(res) else 'data-duplicated' if res.startswith(data) else 'data-corrupted'
            acc.violation(mech + ':' + tr, 'bulk %d bytes in %d writes, maxread %d, reader %s: returned %d bytes, first difference at %d (%r vs %r)' % (
                total, len(pieces), size, case['reader'], len(res), i, res[i:i + 16], data[i:i + 16]), case)
            return
        if total >= 4096:
            acc.nontrivial('c06b', case)
    finally:
        L.cleanup()


# ------------------------------------------------------------------ popen H6

def popen_case(case, acc):
    """PopenSpawn: reader thread vs consumer under schedule perturbation."""
    import random
    rng = random.Random(case['rs'])
    old = sys.getswitchinterval()
    sys.setswitchinterval(1e-5)
    pup = Puppet()
    c = None
    mon = None
    try:
        c = PopenSpawn(pup.argv, timeout=10, maxread=case['maxread'])
        pup.wait_ready()
        # seeded yields inside the two PopenSpawn functions (sys.monitoring LINE events)
        import sys as _s
        if hasattr(_s, 'monitoring'):
            mon = _s.monitoring
            tool = 3
            try:
                mon.use_tool_id(tool, 'pvmon-c06')
            except ValueError:
                mon = None
        if mon:
            codes = [PopenSpawn._read_incoming.__code__, PopenSpawn.read_nonblocking.__code__]
            yrng = random.Random(case['rs'] + 1)

            def on_line(code, line):
                if yrng.random() < 0.3:
                    time.sleep(0)
                    acc.count('yields_injected')
            mon.register_callback(tool, mon.events.LINE, on_line)
            for co in codes:
                mon.set_local_events(tool, co, mon.events.LINE)
        blocks = [block(i, rng.choice([1, 3, 40, 200])) for i in range(rng.randint(1, 12))]
        for bl in blocks:
            pup.cmd('W ' + bl.hex())
        pup.cmd('X 0')
        want = b''.join(blocks)
        got = b''
        eof = False
        order = []
        t0 = time.time()
        if case['reader'] == 'expect':
            try:
                c.expect(EOF, timeout=20)
                eof = True
            except TIMEOUT:
                pass
            got = c.before
        else:
            while time.time() - t0 < 30:
                try:
                    d = c.read_nonblocking(case['maxread'], 0.2)
                except EOF:
                    eof = True
                    break
                acc.count('results_checked_le_size')
                if len(d) > case['maxread']:
                    acc.violation('read-longer-than-size:popen', 'read_nonblocking(%d) returned %d bytes' % (case['maxread'], len(d)), case)
                    return
                order.append(len(d))
                got += d
        acc.seen('distinct_traces', 'popen:' + ','.join(map(str, order[:40])))
        acc.count('popen_runs')
        acc.count('eof_checks')
        if not eof:
            acc.violation('no-eof-after-peer-ended:popen', 'no EOF within 20 s', case)
            return
        if got != want:
            mech = 'eof-before-all-data' if want.startswith(got) else 'data-duplicated' if got.startswith(want) else 'data-corrupted'
            acc.violation(mech + ':popen', 'returned %d of %d bytes ...%r vs ...%r' % (len(got), len(want), got[-20:], want[-20:]), case)
            return
        acc.nontrivial('c06p', case, order[:20])
    finally:
        if mon:
            try:
                for co in codes:
                    mon.set_local_events(tool, co, 0)
                mon.register_callback(tool, mon.events.LINE, None)
                mon.free_tool_id(tool)
            except Exception:
                pass
        sys.setswitchinterval(old)
        if c is not None:
            try:
                c.proc.kill()
            except Exception:
                pass
            try:
                c.proc.wait(5)
                c.proc.stdin.close()
                c.proc.stdout.close()
            except Exception:
                pass
        pup.cleanup()


def popen_placement(case, acc):
    """PopenSpawn: peer actions placed among the system calls of the READER THREAD (pipe read, and - whatever a
    version of the code uses - readiness polls and child-status checks)."""
    import threading
    import pexpect.popen_spawn as pp
    plan, placement, size = case['plan'], case['placement'], case['size']
    pup = Puppet()
    ready = threading.Event()
    written = []
    state = {'exited': False}
    main = threading.main_thread()
    saved = []
    c = None

    def perform(a):
        ready.wait(20)
        act = plan[a]
        if act == 'W':
            data = block(a, 3)
            pup.write(data)
            written.append(data)
        else:
            state['exited'] = True
            pup.exit(0)
    sites = Sites([(s0, a) for a, s0 in enumerate(placement)], perform)
    lock = threading.Lock()

    def at(name):
        if threading.current_thread() is not main:
            with lock:
                sites.at(name)
    try:
        real_os = pp.os

        class OsProxy(object):
            def read(self, fd, n):
                at('read')
                return real_os.read(fd, n)

            def __getattr__(self, nm):
                return getattr(real_os, nm)
        saved.append((pp, 'os', real_os))
        pp.os = OsProxy()
        if hasattr(pp, 'select'):
            real_sel = pp.select

            class SelProxy(object):
                def select(self, *a, **k):
                    at('select')
                    return real_sel.select(*a, **k)

                def poll(self, *a, **k):
                    at('poll')
                    return real_sel.poll(*a, **k)

                def __getattr__(self, nm):
                    return getattr(real_sel, nm)
            saved.append((pp, 'select', real_sel))
            pp.select = SelProxy()
        c = PopenSpawn(pup.argv, timeout=10, maxread=size)
        orig_poll = c.proc.poll

        def poll():
            at('status')
            return orig_poll()
        c.proc.poll = poll
        pup.wait_ready()
        ready.set()
        got = b''
        eof = False
        t0 = time.time()
        idle_since = time.time()
        while time.time() - t0 < 20:
            try:
                d = c.read_nonblocking(size, 0.05)
            except EOF:
                eof = True
                break
            if d:
                got += d
                idle_since = time.time()
                if len(d) > size:
                    acc.violation('read-longer-than-size:popen', 'read_nonblocking(%d) returned %d bytes' % (size, len(d)), case)
                    return
            elif time.time() - idle_since > 0.25:
                # the reader thread sits in a blocking call: the next scheduled action happens "now"
                with lock:
                    if sites.schedule:
                        _, a = sites.schedule.pop(0)
                        sites.before_action.append((a, 'blocked'))
                        perform(a)
                idle_since = time.time()
            else:
                time.sleep(0.002)
        want = b''.join(written)
        acc.count('eof_checks')
        acc.count('popen_placements')
        tr = ' '.join(sites.trace[:16])
        acc.seen('distinct_traces', 'popen-thread:' + tr + repr(sites.before_action))
        desc = 'popen plan %s at reader-thread sites %r (%s); thread trace: %s' % (
            ''.join(plan), placement, ', '.join('%s before %s' % (plan[a], nm) for a, nm in sites.before_action), tr)
        if eof and not state['exited']:
            acc.violation('eof-while-peer-alive:popen', desc, case)
            return
        if not eof:
            acc.violation('no-eof-after-peer-ended:popen', desc, case)
            return
        if got != want:
            mech = 'eof-before-all-data' if want.startswith(got) else 'data-duplicated' if got.startswith(want) else 'data-corrupted'
            acc.violation(mech + ':popen', desc + '; returned %d of %d bytes' % (len(got), len(want)), case)
            return
        if any(s0 > 0 for s0 in placement):
            acc.count('_distinct_by_construction')
    finally:
        ready.set()
        for mod, name, orig in reversed(saved):
            setattr(mod, name, orig)
        if c is not None:
            try:
                c.proc.kill()
            except Exception:
                pass
            try:
                c.proc.wait(5)
                c.proc.stdin.close()
                c.proc.stdout.close()
            except Exception:
                pass
        pup.cleanup()


# ------------------------------------------------------------------ plan

def plan(tier, seed):
    cases = []
    n = 8 if tier == 'quick' else 12
    import random
    rng = random.Random(seed)
    for pl in PLANS:
        k = len(pl)
        allp = list(placements(k, n))
        if tier == 'quick' and len(allp) > 60:
            # quick: every placement of the 2-action plans, a seeded half of the longer ones
            allp = [p for i, p in enumerate(allp) if (i + seed) % 2 == 0]
        for p in allp:
            if tier == 'quick':
                size = rng.choice([1, 7, 2000, 65536])
                cases.append({'kind': 'pty', 'plan': pl, 'placement': list(p), 'size': size, 'poll': rng.random() < 0.5,
                              'reader': rng.choice(['loop', 'loop', 'expect'])})
            else:
                for size, poll, reader in [(2000, False, 'loop'), (1, True, 'loop'), (7, False, 'expect'),
                                           (65536, True, 'expect')]:
                    cases.append({'kind': 'pty', 'plan': pl, 'placement': list(p), 'size': size, 'poll': poll,
                                  'reader': reader})
    # the same with a grandchild that keeps the terminal open after the child's exit (no hang-up on the master)
    for pl in (['W', 'X'], ['W', 'W', 'X'], ['X']):
        allp = list(placements(len(pl), n))
        if tier == 'quick':
            allp = [p for i, p in enumerate(allp) if (i + seed) % 3 == 0]
        for p in allp:
            cases.append({'kind': 'pty', 'plan': pl, 'placement': list(p), 'size': rng.choice([1, 7, 2000]),
                          'poll': rng.random() < 0.5, 'reader': rng.choice(['loop', 'expect']), 'holder': True})
    # in-process fd/socket placements (cheap): all placements
    for tr in ('fd', 'socket'):
        for pl in (['W', 'X'], ['W', 'W', 'X'], ['X'], ['W', 'W', 'W', 'X']):
            for p in placements(len(pl), 6 if tier == 'quick' else 9):
                for size in ((7,) if tier == 'quick' else (1, 7, 2000)):
                    cases.append({'kind': 'inproc', 'tr': tr, 'plan': pl, 'placement': list(p), 'size': size,
                                  'poll': bool(sum(p) % 2)})
                    if sum(p) % 3 == 0:
                        cases.append({'kind': 'inproc', 'tr': tr, 'plan': pl, 'placement': list(p),
                                      'enc': ['utf-8', 'shift_jis', 'utf-8', 'gbk', 'big5'][(sum(p) // 3 + len(pl)) % 5],
                                      'size': [1, 2, 3, 7][sum(p) % 4], 'poll': bool(sum(p) % 2)})
    # deterministic bulk cases: sizes between one kernel read (~4 KB on a pty) and the whole stream, so that one
    # read_nonblocking has to assemble its result from several pieces
    for tr in ('pty', 'popen', 'fd', 'socket'):
        for maxread in ((10000, 65536) if tier == 'quick' else (5000, 10000, 20000, 65536, 200000)):
            cases.append({'kind': 'bulk', 'tr': tr, 'total': 300000, 'maxread': maxread, 'rs': maxread + len(tr),
                          'reader': 'loop'})
    for i in range(6 if tier == 'quick' else 80):
        cases.append({'kind': 'bulk', 'tr': 'popen', 'total': [60000, 300000, 9000][i % 3], 'maxread': [2000, 65536][i % 2],
                      'rs': 1000 + i, 'reader': ['loop', 'expect'][i % 2], 'wait_first': True})
    for pl in (['W', 'X'], ['W', 'W', 'X'], ['X']):
        for p in placements(len(pl), 4 if tier == 'quick' else 6):
            cases.append({'kind': 'popen-placement', 'plan': pl, 'placement': list(p), 'size': 7 if sum(p) % 2 else 2000})
    nb = 10 if tier == 'quick' else 200
    for i in range(nb):
        tr = ['pty', 'fd', 'socket', 'popen'][i % 4]
        maxread = rng.choice([1, 64, 2000, 10000, 65536, 1 << 20])
        total = rng.choice([0, 1, 100, 5000, 70000, 300000, 524288])
        if maxread == 1:
            total = min(total, 5000)
        cases.append({'kind': 'bulk', 'tr': tr, 'total': total, 'maxread': maxread, 'rs': rng.randrange(1 << 30),
                      'reader': rng.choice(['loop', 'expect'])})
    for i in range(8 if tier == 'quick' else 200):
        cases.append({'kind': 'popen', 'maxread': rng.choice([1, 7, 64, 2000]), 'rs': rng.randrange(1 << 30),
                      'reader': rng.choice(['loop', 'expect'])})
    rng.shuffle(cases)
    specs = [{'cases': cases[a:b], 'shard': i} for i, (a, b) in enumerate(split_range(len(cases), 16))]
    n, k = (160, 2) if tier == 'quick' else (3000, 8)
    for i, (a, b) in enumerate(split_range(n, k)):
        # the asyncio entry point reads the same stream: awaited calls, awaits abandoned from outside, text arriving while
        # nobody waits (checks/_async_model.py) - whatever was written is handed out once, in order
        specs.append({'mode': 'async-model', 'n': b - a, 'shard': 660 + i, 'seed': seed, 'tier': tier})
    return specs


def dispatch(case, acc):
    k = case['kind']
    if k == 'pty':
        acc.count('placements')
        pty_placement(case, acc)
    elif k == 'inproc':
        acc.count('inproc_placements')
        inproc_placement(case, acc)
    elif k == 'bulk':
        acc.count('bulk_runs')
        bulk_case(case, acc)
    elif k == 'popen-placement':
        popen_placement(case, acc)
    else:
        popen_case(case, acc)


def one(case, acc):
    acc.case()
    try:
        with watchdog(200):
            # (several clauses are bounded by wall-clock limits - "no EOF within 20 s" - that an overloaded machine can
            # exceed by itself: a violation counts when it reproduces in a second, serial run of the same case)
            confirmed(case, dispatch, acc, retries=1)
    except PeerError as e:
        acc.inconc('peer: %s (%r)' % (e, case))
    except CaseTimeout as e:
        try:
            second_attempt(acc, case, lambda: dispatch(case, acc), 90, '%s case did not finish within 90 s' % case['kind'])
        except PeerError as e2:
            acc.inconc('peer: %s (%r)' % (e2, case))
    if acc.evaluations <= 3:
        acc.sample(case)


def run_shard(spec, acc):
    signal.signal(signal.SIGHUP, signal.SIG_DFL)
    if spec.get('mode') == 'async-model' or ('replay' in spec and 'calls' in spec['replay']):
        from . import _async_model as AM
        return AM.run(spec, acc, 'asyncio-reads')
    if 'replay' in spec:
        return one(spec['replay'], acc)
    for case in spec['cases']:
        one(case, acc)


def coverage_extra(acc, tier):
    return {'distinct_syscall_traces': len(acc.sets.get('distinct_traces', ())),
            'exhaustive': False,
            'note': 'every placement of each plan among the first n sites is enumerated in the thorough tier (a seeded '
                    'half of the 3/4-action plans in the quick tier)'}
