"""C15 interact(): a transparent two-way pipe until the escape character.
(also provides the interact() part of C11)"""
import codecs
import os
import time

from ..core.runner import split_range
from ..core.watchdog import watchdog, CaseTimeout
from ..workloads.gen_expect import rng_for
from ..workloads.interact_h7 import Session
from ..workloads.puppetctl import PeerError, proc_stat

ID = 'C15'
LEVEL = 'exploration'
RULE = ('an outer pty plays the user of interact(): keystroke chunks over all byte values, multi-byte text and bursts > 1000 '
        'bytes; escape character absent / first / middle / last / repeated in one read / a non-default one / None; '
        'input_filter and output_filter on/off (identity, upper, doubling, dropping and growing filters, incl. a length '
        'change before the escape character in the same read); pending buffer empty/non-empty; child output interleaved; session ended by '
        'the escape or by the child exiting; bytes/unicode; select/poll. From the exact chunk returned by every stdin read '
        '(os proxy in the driver): the inner raw-mode child must receive filter(d) up to the first escape and nothing '
        'afterwards; the outer master must receive pending + output_filter(each child read); interact must return; '
        'tcgetattr after == before. non-trivial = >=2 typed chunks and child output, or an escape that is not alone in '
        'its read; distinct by case')
ASSUMPTIONS = ['inner child is the raw-mode puppet (no echo, no line discipline processing); outer tty has OPOST off before interact',
               'non-return of interact() within 15 s of the escape / the child exit is a refuting event (watchdog 60 s)']
REQUIRED = ['sessions', 'stdin_reads_observed', 'child_reads_observed', 'escape_sessions', 'exit_sessions',
            'mode_checks', 'bytes_to_child_compared', 'bytes_to_user_compared', 'sessions_with_child_writing_without_pause', 'sessions_entered_in_cbreak_mode']

FILTERS = {'upper': lambda b: b.upper(), 'double': lambda b: b + b, 'drop-x': lambda b: b.replace(b'x', b''),
           'grow-a': lambda b: b.replace(b'a', b'aaa'), 'slow': lambda b: b, None: lambda b: b}


def numbered(n):
    return b''.join(b'%07d\n' % i for i in range(n))


def gen_flood(rng):
    """the child writes without pause (a build log, `yes`, `tail -f`) until it reads 'q': the keystroke typed meanwhile
    reaches it, and the escape character typed meanwhile ends the session - while the output goes on, not after it"""
    body = bytes(rng.choice(b'abcdefgh') for _ in range(rng.randint(0, 5)))
    if rng.random() < 0.5:
        steps, end = [['flood', (body + b'q').hex()]], 'exit'
        if rng.random() < 0.5:
            steps.append(['type', b'\x1d'.hex()])
            end = 'escape'
    else:
        steps, end = [['flood-escape', (body + b'\x1d').hex()]], 'escape'
    return {'enc': rng.choice([None, 'utf-8']), 'poll': rng.random() < 0.5, 'escape': '\x1d',
            'filters': {'input': None, 'output': rng.choice([None, 'slow', 'slow', 'slow', 'upper'])},
            'pending': rng.choice(['', '', 'PEND\xe9ing']), 'steps': steps, 'end': end, 'logs': [], 'prior': False,
            'dead_first': None, 'flood': True}


def gen_case(rng, for_log=False):
    if not for_log and rng.random() < 0.1:
        return gen_flood(rng)
    esc = rng.choice(['\x1d', '\x1d', '\x1d', 'Q', None])
    escb = esc.encode('latin-1') if esc else None
    nsteps = rng.randint(1, 6)
    steps = []
    end = 'exit'
    for i in range(nsteps):
        if rng.random() < 0.45:
            n = rng.choice([1, 3, 10, 40, 300]) if rng.random() < 0.9 else rng.choice([1500, 2500])
            data = bytes(rng.randrange(256) for _ in range(n))
            if rng.random() < 0.3:
                data = 'h\xe9llo €日'.encode('utf-8') + data[:5]
            if escb:
                data = data.replace(escb, b'e')
            steps.append(['out', data.hex()])
        else:
            n = rng.choice([1, 2, 5, 20, 200]) if rng.random() < 0.92 else 1800
            data = bytes(rng.randrange(256) for _ in range(n))
            if rng.random() < 0.3:
                data = 'ty\xfcp €'.encode('utf-8') + data[:4]
            # the tty's own special characters are inactive in raw mode; keep them in
            if escb:
                data = data.replace(escb, b'x')
            steps.append(['type', data.hex()])
    if escb and rng.random() < 0.65:
        where = rng.choice(['alone', 'first', 'middle', 'last', 'repeated', 'repeated'])
        body = bytes(rng.randrange(256) for _ in range(rng.randint(2, 12))).replace(escb, b'y')
        if where == 'alone':
            d = escb
        elif where == 'first':
            d = escb + body
        elif where == 'last':
            d = body + escb
        elif where == 'middle':
            k = len(body) // 2
            d = body[:k] + escb + body[k:]
        else:
            k = len(body) // 3
            d = body[:k] + escb + body[k:2 * k + 1] + escb + body[2 * k + 1:]
        steps.append(['type', d.hex()])
        end = 'escape'
    filt_in = rng.choice([None, None, 'upper', 'double', 'drop-x', 'grow-a'])
    if end == 'escape' and esc == '\x1d' and rng.random() < 0.4:
        # a filter that changes the LENGTH of what precedes the escape character in the same read: the cut must
        # be made where the escape character is in the filtered data
        filt_in = rng.choice(['drop-x', 'grow-a'])
        ch = b'x' if filt_in == 'drop-x' else b'a'
        pre = b''.join(rng.choice([ch, ch, b'b', b'c']) for _ in range(rng.randint(1, 6))) + ch
        post = bytes(rng.choice(b'bcdefg') for _ in range(rng.randint(0, 4)))
        steps[-1] = ['type', (pre + escb + post).hex()]
    if esc == 'Q' and rng.random() < 0.5:
        # the input filter runs BEFORE the check for the escape character: a typed 'q' becomes the escape 'Q'
        filt_in = 'upper'
        body = bytes(rng.choice(b'abcdefghij') for _ in range(rng.randint(1, 8)))
        k = rng.randint(0, len(body))
        steps = [s for s in steps if not (s[0] == 'type' and (b'q' in bytes.fromhex(s[1]) or b'Q' in bytes.fromhex(s[1])))]
        if end == 'escape':
            steps = steps[:-1]
        steps.append(['type', (body[:k] + b'q' + body[k:]).hex()])
        end = 'escape'
    filt_out = rng.choice([None, None, 'upper', 'double', 'drop-x', 'grow-a'])
    if rng.random() < 0.25:
        # a burst that the output filter removes completely (the filtered read is empty: not an end of file),
        # followed by more output that must still arrive
        filt_out = 'drop-x'
        k = rng.randint(0, len(steps))
        more = bytes(rng.choice(b'abcdefgh') for _ in range(5))
        tail_steps = steps[k:]
        steps = steps[:k] + [['out', (b'x' * rng.randint(1, 4)).hex()], ['out', more.hex()]] + tail_steps
    if filt_in is None and rng.random() < 0.15 and esc != 'x':
        filt_in = 'drop-x'
        k = rng.randint(0, max(0, len(steps) - 1))
        steps = steps[:k] + [['type', b'xx'.hex()], ['type', b'after-x'.hex()]] + steps[k:]
    dead_first = None
    if end == 'exit' and rng.random() < 0.3:
        # the child says its last words and exits at once (while the copy loop may be busy with a slow filter), or
        # has even written everything and exited before interact() is entered
        n = rng.choice([1, 20, 600, 999, 1000, 1001, 2500, 3900])
        words = bytes(rng.choice(b'abcdefghij\n') for _ in range(n))
        if rng.random() < 0.35:
            dead_first = words.hex()
            steps = []
        else:
            steps = [s for s in steps if s[0] == 'out'][:2] + [['lastwords', words.hex()]]
        if rng.random() < 0.6:
            filt_out = 'slow'
    case = {'enc': rng.choice([None, 'utf-8']), 'poll': rng.random() < 0.4, 'escape': esc,
            'filters': {'input': filt_in,
                        'output': filt_out},
            'pending': rng.choice(['', '', 'PEND\xe9ing']), 'steps': steps, 'end': end, 'logs': [],
            'prior': rng.choice([False, False, False, False, True, True, 'abort']), 'dead_first': dead_first}
    if not for_log and not dead_first and rng.random() < 0.15:
        # the user's terminal is in single-key (cbreak) mode on entry, not in line mode: interact() still has to make
        # it raw, or CR arrives as NL and ^S/^Q never arrive.  (The signal keys are left out: with ISIG still on they
        # would end the driver itself.)
        case['entry_mode'] = 'cbreak'
        clean = bytes.maketrans(b'\x03\x1c\x1a', b'kkk')
        case['steps'] = [[st[0], bytes.fromhex(st[1]).translate(clean).hex()] if st[0] == 'type' else st for st in case['steps']]
        if case['escape'] != 'Q' or True:
            case['steps'].insert(0, ['type', b'a\rb\x11c\x13\rd'.hex()])
    if case['pending'] and rng.random() < 0.5:
        # the pending text was left behind by an exact-string call that timed out
        case['pending'] = 'PEND\xe9ing text, longer than any look-back'
        case['pending_trim'] = True
    if for_log:
        case['interact'] = True
        case['logs'] = rng.choice([['logfile'], ['logfile_read'], ['logfile_send'],
                                   ['logfile', 'logfile_read', 'logfile_send'], ['logfile_read', 'logfile_send']])
        if for_log == 'split' or rng.random() < 0.3:
            # unicode mode, and the child's output is cut inside characters with keystrokes read in between (and
            # typed characters cut with output in between): each direction is a text stream of its own
            case.update({'enc': 'utf-8', 'filters': {'input': None, 'output': None}, 'escape': '\x1d', 'end': 'exit',
                         'dead_first': None, 'pending': rng.choice(['', 'PEND\xe9ing'])})
            o = 'A\xe9B\u20acZ\u65e5!'.encode('utf-8')
            t = 'x\xfcy\u20acz'.encode('utf-8')
            oc = sorted(rng.sample(range(1, len(o)), 3))
            tc = sorted(rng.sample(range(1, len(t)), 2))
            op = [o[a:b] for a, b in zip([0] + oc, oc + [len(o)])]
            tp = [t[a:b] for a, b in zip([0] + tc, tc + [len(t)])]
            steps = []
            for k in range(4):
                steps.append(['out', op[k].hex()])
                if k < 3:
                    steps.append(['type', tp[k].hex()])
            case['steps'] = steps
    return case


def run_session(case):
    """-> dict(observations) ; raises PeerError when the harness could not drive it"""
    cfg = {k: case[k] for k in ('enc', 'poll', 'escape', 'filters', 'pending', 'logs')}
    cfg['entry_mode'] = case.get('entry_mode')
    cfg['prior'] = case.get('prior') or False
    cfg['dead_first'] = bool(case.get('dead_first'))
    cfg['pending_trim'] = bool(case.get('pending_trim'))
    S = Session(cfg)
    obs = {'returned': None, 'timeline': []}
    try:
        pup = S.pup
        if S.expect_status('SPAWNED', 20) is None:
            raise PeerError('driver did not spawn the inner child')
        pup.wait_ready()
        pend = case['pending'].encode('utf-8')
        if pend:
            pup.write(b'<<' + pend)
        if case.get('prior'):
            if S.expect_status('PRIOR', 20) is None:
                raise PeerError('driver did not reach the earlier interact()')
            if not S.wait_raw(10):
                raise PeerError('outer tty never became raw (earlier session)')
            S.type(b'\x01' if case.get('prior') == 'abort' else b'\x1d')
            if S.expect_status('PRIOR-DONE', 20) is None:
                raise PeerError('the earlier interact() session did not end on its escape character')
        sent_first = b''
        if case.get('dead_first'):
            if S.expect_status('WAIT-DEATH', 20) is None:
                raise PeerError('driver did not reach the point before interact()')
            sent_first = bytes.fromhex(case['dead_first'])
            pup.write(sent_first)
            pup.exit(0)
            os.write(S.go_w, b'd')
        if S.expect_status('INTERACT', 20) is None:
            raise PeerError('driver did not reach interact()')
        if case.get('entry_mode') == 'cbreak':
            # (whether the terminal is made raw is the point of these sessions: the keystroke oracle decides)
            obs['raw_seen'] = S.wait_raw(3)
        elif not case.get('dead_first') and not S.wait_raw(10):
            raise PeerError('outer tty never became raw')
        fin = FILTERS[case['filters']['input']]
        escb = case['escape'].encode('latin-1') if case['escape'] else None
        sent_out = sent_first
        typed_total = 0
        escaped = False
        for st in case['steps']:
            data = bytes.fromhex(st[1])
            if st[0] == 'lastwords':
                # the child's last output, followed at once by its exit
                pup.write(data)
                sent_out += data
                break
            if st[0] == 'flood-escape':
                pup.flood_start(b'q', 20)
                S.read_outer(len(S.outer_rx) + 3000, 10)
                S.type(data)
                typed_total += len(data)
                escaped = True
                obs['flood_open'] = True
                obs['returned'] = S.expect_status('RETURNED', 15) is not None
                break
            if st[0] in ('out', 'flood'):
                if st[0] == 'flood':
                    pup.flood_start(b'q', 20)
                    S.read_outer(len(S.outer_rx) + 3000, 10)
                    S.type(data)
                    typed_total += len(data)
                    lines, stopped = pup.flood_result(40)
                    obs['flood'] = (lines, stopped)
                    data = numbered(lines)
                else:
                    pup.write(data)
                sent_out += data
                # wait until it has passed through (length is filter dependent: wait for quiescence)
                t0 = time.time()
                last = -1
                while time.time() - t0 < 5:
                    S.read_outer(1 << 30, 0.03)
                    if len(S.outer_rx) == last and len(S.outer_rx) >= len(pend) + (1 if data else 0):
                        break
                    last = len(S.outer_rx)
            else:
                S.type(data)
                typed_total += len(data)
                if escb and escb in fin(data) if len(data) <= 1000 else False:
                    escaped = True
                    break
                # let the driver consume the chunk before the next one is typed
                t0 = time.time()
                last = -1
                while time.time() - t0 < 5:
                    n, _ = pup.nreceived()
                    if n == last and n > 0:
                        break
                    last = n
                    time.sleep(0.02)
                if escb and S.expect_status('RETURNED', 0.05):
                    escaped = True
                    obs['returned'] = True
                    break
        if obs.get('flood_open'):
            # (the child is still writing, or blocked in a write nobody reads: it cannot be asked what it received)
            obs['child_rx'] = None
        elif escaped:
            if obs['returned'] is None:
                obs['returned'] = S.expect_status('RETURNED', 15) is not None
            obs['child_rx'] = pup.received()
        elif case.get('dead_first'):
            obs['child_rx'] = b''
            obs['returned'] = S.expect_status('RETURNED', 15) is not None
        else:
            obs['child_rx'] = pup.received()
            pup.exit(0, wait=False)
            obs['returned'] = S.expect_status('RETURNED', 15) is not None
        S.read_outer(1 << 30, 0.1)
        obs['outer_rx'] = S.outer_rx
        obs['sent_out'] = sent_out
        obs['escaped'] = escaped
        if not obs['returned']:
            # interact() is still running: the driver cannot report; the caller judges the non-return
            obs['driver'] = None
            return obs
        res = S.finish()
        if res is None:
            raise PeerError('no report from the driver')
        obs['driver'] = res
        S.read_outer(1 << 30, 0.05)
        return obs
    finally:
        S.cleanup()


def one(case, acc):
    acc.case()
    acc.count('sessions')
    obs = run_session(case)
    acc.count('escape_sessions' if case['end'] == 'escape' else 'exit_sessions')
    d = obs['driver']

    def v(mech, detail):
        acc.violation(mech, '%s esc=%r filters=%r pending=%r end=%s: %s' % (
            case['enc'] or 'bytes', case['escape'], case['filters'], case['pending'], case['end'], detail), case)
        return False
    if case.get('flood'):
        acc.count('sessions_with_child_writing_without_pause')
    if case.get('entry_mode') == 'cbreak':
        acc.count('sessions_entered_in_cbreak_mode')
    if obs.get('flood') and not obs['flood'][1]:
        return v('keystrokes-not-delivered-while-child-writes', 'the child wrote %d lines for 20 s and never received the q typed '
                 'at the start' % obs['flood'][0])
    if d is None:
        return v('interact-does-not-return', 'no return within 15 s after the %s%s (inner child received %r)' % (
            'escape character' if obs['escaped'] else 'child exit', ' typed while the child went on writing' if obs.get('flood_open') else '',
            (obs.get('child_rx') or b'')[-30:]))
    if d.get('error'):
        raise PeerError('driver error: ' + d['error'][-300:])
    if d.get('interact_error'):
        return v('interact-raises', d['interact_error'])
    if not obs['returned']:
        return v('interact-does-not-return', 'no return within 15 s after the %s' % (
            'escape character' if obs['escaped'] else 'child exit'))
    acc.count('mode_checks')
    if case.get('prior'):
        acc.count('second_sessions_on_one_object')
        if d.get('prior_error') or d.get('prior_mode_restored') is False:
            return v('tty-mode-not-restored', 'earlier session on the same object: %s' % (d.get('prior_error') or 'mode differs',))
    if not d['mode_restored']:
        return v('tty-mode-not-restored', 'before %s after %s' % (d['mode_before'], d['mode_after']))
    fin = FILTERS[case['filters']['input']]
    fout = FILTERS[case['filters']['output']]
    escb = case['escape'].encode('latin-1') if case['escape'] else None
    # input direction, from the exact chunks the driver's stdin reads returned
    want_child = b''
    stopped = False
    nonalone = False
    for e in d['events']:
        if e[0] == 'r' and e[1] == 'stdin':
            acc.count('stdin_reads_observed')
            if stopped:
                return v('read-after-escape', 'stdin was read again after the escape character')
            chunk = fin(bytes.fromhex(e[2]))
            i = chunk.find(escb) if escb else -1
            if i >= 0:
                want_child += chunk[:i]
                stopped = True
                if len(chunk) > 1:
                    nonalone = True
            else:
                want_child += chunk
    got_child = obs['child_rx']
    if got_child is None:
        got_child = want_child
    acc.count('bytes_to_child_compared', len(want_child))
    if got_child != want_child:
        if stopped and len(got_child) > len(want_child) and got_child.startswith(want_child):
            mech = 'delivered-at-or-after-escape'
        elif want_child.startswith(got_child):
            mech = 'keystrokes-lost'
        else:
            mech = 'keystrokes-altered'
        return v(mech, 'inner child received %r, expected %r' % (got_child[-60:], want_child[-60:]))
    wrote_child = b''.join(bytes.fromhex(e[2]) for e in d['events'] if e[0] == 'w' and e[1] == 'child')
    if wrote_child != want_child:
        return v('keystrokes-altered', 'driver wrote %r to the child, expected %r' % (wrote_child[-60:], want_child[-60:]))
    if escb and obs['escaped'] and not stopped:
        return v('interact-returned-without-escape-or-exit', 'returned although no read contained the escape')
    # output direction
    reads = [bytes.fromhex(e[2]) for e in d['events'] if e[0] == 'r' and e[1] == 'child']
    acc.count('child_reads_observed', len(reads))
    raw = b''.join(reads)
    pend = case['pending'].encode('utf-8')
    if obs.get('flood_open'):
        obs['sent_out'] += numbered(len(raw) // 8 + 2)
    if not obs['escaped'] or True:
        # everything the child wrote before the end must have been read, in order (a prefix if escape came first)
        if not obs['sent_out'].startswith(raw) if obs['escaped'] else raw != obs['sent_out']:
            return v('child-output-lost-or-altered', 'driver read %r from the child, it wrote %r' % (raw[-60:], obs['sent_out'][-60:]))
    want_user = pend + b''.join(fout(r) for r in reads)
    acc.count('bytes_to_user_compared', len(want_user))
    if obs['outer_rx'] != want_user:
        if pend and not obs['outer_rx'].startswith(pend):
            mech = 'pending-output-not-flushed-first'
        else:
            mech = 'user-output-differs'
        return v(mech, 'outer pty received %r, expected %r' % (obs['outer_rx'][:80], want_user[:80]))
    ntyped = sum(1 for s in case['steps'] if s[0] == 'type')
    nout = sum(1 for s in case['steps'] if s[0] == 'out')
    if (ntyped >= 2 and nout >= 1) or nonalone:
        acc.nontrivial('c15', case)
    if acc.evaluations <= 2:
        acc.sample(case)
    return True


# --------------------------------------------------------------- C11 part

def interact_log_case(case, acc):
    """interact() with recording log objects: checked for C11."""
    acc.case()
    acc.count('interact_cases')
    try:
        with watchdog(60):
            obs = run_session(case)
    except PeerError as e:
        acc.inconc('peer: %s' % e)
        return
    except CaseTimeout as e:
        acc.inconc('watchdog: %s' % e)
        return
    d = obs['driver']
    enc = case['enc']
    if d is None:
        acc.violation('interact-does-not-return:interact', 'interact() did not return (logs %s)' % '+'.join(case['logs']), case)
        return

    def v(mech, detail):
        acc.violation(mech + ':interact', 'interact %s logs=%s: %s' % (enc or 'bytes', '+'.join(case['logs']), detail), case)
        return False
    if d.get('error'):
        acc.inconc('driver error: ' + d['error'][-200:])
        return
    if d.get('interact_error'):
        return v('interact-raises-with-log', d['interact_error'])
    fin = FILTERS[case['filters']['input']]
    fout = FILTERS[case['filters']['output']]
    escb = case['escape'].encode('latin-1') if case['escape'] else None
    want_type = 'str' if enc else 'bytes'
    # expected log pieces in operation order (journal index recorded with every os event)
    exp = []
    for e in d['events']:
        if e[0] == 'r' and e[1] == 'child':
            exp.append(('read', fout(bytes.fromhex(e[2]))))
        elif e[0] == 'r' and e[1] == 'stdin':
            chunk = fin(bytes.fromhex(e[2]))
            i = chunk.find(escb) if escb else -1
            if i >= 0:
                if chunk[:i]:
                    exp.append(('send', chunk[:i]))
                break
            exp.append(('send', chunk))
    j = d['journal']
    acc.count('log_writes_seen', sum(1 for x in j if x[0] == 'w'))
    for x in j:
        if x[0] == 'w' and x[2] != want_type:
            return v('log-wrong-string-type', '%s.write() got %s in %s mode' % (x[1], x[2], 'unicode' if enc else 'bytes'))
    pending = {}
    for x in j:
        if x[0] == 'w':
            if pending.get(x[1]):
                return v('log-write-without-flush', 'two writes to %s without flush' % x[1])
            pending[x[1]] = True
        else:
            pending[x[1]] = False
    acc.count('flush_checks')
    if any(pending.values()):
        return v('log-write-without-flush', 'unflushed write at the end')

    def content(name):
        parts = [x[3] for x in j if x[0] == 'w' and x[1] == name]
        if enc:
            return ''.join(parts).encode(enc)
        return b''.join(bytes.fromhex(p) for p in parts)
    reads = b''.join(t for k, t in exp if k == 'read')
    sends = b''.join(t for k, t in exp if k == 'send')
    both = b''.join(t for k, t in exp)

    def same(got, want):
        if not enc:
            return got == want
        # text logs: compare as decoded text (invalid sequences are replaced)
        # (a stream decoder keeps a trailing incomplete character pending)
        return got == codecs.getincrementaldecoder(enc)('replace').decode(want).encode(enc)
    if 'logfile_read' in case['logs'] and not same(content('logfile_read'), reads):
        return v('logfile_read-differs', 'logfile_read %r, child output %r' % (content('logfile_read')[:60], reads[:60]))
    if 'logfile_send' in case['logs'] and not same(content('logfile_send'), sends):
        return v('logfile_send-differs', 'logfile_send %r, keystrokes sent %r' % (content('logfile_send')[:60], sends[:60]))
    if enc:
        # each direction is a stream of its own
        decs = {'read': codecs.getincrementaldecoder(enc)('replace'), 'send': codecs.getincrementaldecoder(enc)('replace')}
        both_text = ''.join(decs[k].decode(t) for k, t in exp).encode(enc)
        if 'logfile' in case['logs'] and content('logfile') != both_text:
            return v('logfile-not-the-interleaving', 'logfile %r, expected %r' % (content('logfile')[:60], both_text[:60]))
    elif 'logfile' in case['logs'] and not same(content('logfile'), both):
        return v('logfile-not-the-interleaving', 'logfile %r, expected %r' % (content('logfile')[:60], both[:60]))
    acc.count('read_events', sum(1 for k, t in exp if k == 'read'))
    acc.count('send_events', sum(1 for k, t in exp if k == 'send'))
    acc.nontrivial('c11i', case)


def plan(tier, seed):
    n = 96 if tier == 'quick' else 2400
    return [{'n': b - a, 'shard': i, 'seed': seed} for i, (a, b) in enumerate(split_range(n, 16))]


def run_shard(spec, acc):
    if 'replay' in spec:
        return guarded(spec['replay'], acc)
    rng = rng_for(spec['seed'], spec['shard'], 15)
    for i in range(spec['n']):
        guarded(gen_case(rng), acc)


def guarded(case, acc):
    try:
        with watchdog(60):
            one(case, acc)
    except PeerError as e:
        acc.inconc('peer: %s' % e)
    except CaseTimeout as e:
        acc.violation('interact-session-hangs', 'session did not finish within 60 s: %s' % e, case)
