"""Conservation ledger on the real transports (companion of C01's scripted histories).

The peer writes a stream of numbered lines (known in advance), in one to three
pieces, and ends (exit / close) either before the consumer has read anything or
half-way.  The consumer mixes expect_exact / expect / readline / read(n) /
expect(EOF) with small and large maxread; whatever the calls hand back
(before+after, return values) concatenated, plus the final `before` at EOF,
must be exactly the stream.
"""
import random
import re

from pexpect import EOF, TIMEOUT

from ..core.watchdog import watchdog, CaseTimeout
from ..core.acc import confirmed
from ..monitors.expect_oracles import short
from ..workloads.puppetctl import PeerError
from ..workloads.transports import Link


def gen_case(rng):
    return {'real': True, 'tr': rng.choice(['pty', 'popen', 'fd', 'socket', 'popen']),
            'maxread': rng.choice([1, 16, 64, 100, 1000, 2000, 2000]),
            'lines': rng.choice([3, 20, 60, 200]), 'enc': rng.choice([None, None, 'utf-8']),
            'end': rng.choice(['before-reading', 'before-reading', 'half-way', 'at-the-end']),
            'pieces': rng.randint(1, 3), 'rs': rng.randrange(1 << 30)}


def one(case, acc, prefix='real-transport'):
    acc.case()
    acc.count('real_transport_histories')
    acc.count('real_' + case['tr'])
    rng = random.Random(case['rs'])
    enc = case['enc']
    lines = []
    for i in range(case['lines']):
        body = ''.join(rng.choice('abcxyz \xe9' if enc else 'abcxyz ') for _ in range(rng.choice([0, 3, 30, 90])))
        lines.append('L%05d:%s\n' % (i, body))
    if case['maxread'] == 1:
        lines = lines[:12]
    text = ''.join(lines)
    raw = text.encode('utf-8' if enc else 'latin-1')
    stream = text if enc else raw
    conv = (lambda s: s) if enc else (lambda s: s.encode('latin-1'))
    L = Link(case['tr'], timeout=10, maxread=case['maxread'], encoding=enc)
    sib = sib_w = None
    try:
        c = L.child
        if enc:
            # another live object with the same encoding that has read half a character: objects do not share
            # decoding state
            import os as _os
            from pexpect import fdpexpect as _fdp
            sr, sib_w = _os.pipe()
            sib = _fdp.fdspawn(sr, encoding=enc, timeout=1)
            _os.write(sib_w, b'caf\xc3')
            sib.expect_exact(['\x00never', TIMEOUT], timeout=0.01)
            acc.count('real_sibling_objects')
        cuts = sorted(rng.sample(range(1, len(raw)), min(case['pieces'] - 1, len(raw) - 1))) if len(raw) > 1 else []
        pieces = [raw[a:b] for a, b in zip([0] + cuts, cuts + [len(raw)])]
        # while the peer is still there only probing calls are made (they time out at once and pull whatever has
        # arrived into the object); the free mix of consuming calls starts once the peer has ended
        probe = [conv('\x00never'), TIMEOUT]
        for j, p in enumerate(pieces):
            L.peer_write(p)
            if case['end'] == 'at-the-end' or (case['end'] == 'half-way' and j == 0):
                for _ in range(rng.randint(1, 3)):
                    acc.count('real_calls')
                    c.expect_exact(probe, timeout=0.01)
        L.peer_close()
        rest = []
        handed = conv('')
        nxt = 0
        ops = 0
        ended = False
        while not ended and ops < 5000:
            ops += 1
            if rest and ops >= 3:
                for p in rest:
                    L.peer_write(p)
                rest = []
                L.peer_close()
            r = rng.random()
            acc.count('real_calls')
            try:
                if r < 0.3 and nxt < len(lines):
                    k = min(len(lines) - 1, nxt + rng.randint(0, 3))
                    lit = conv('L%05d:' % k)
                    c.expect_exact(lit)
                    acc.count('real_match_clauses')
                    if c.after != lit or lit in c.before:
                        acc.violation(prefix + ':match-not-leftmost-or-not-genuine:' + case['tr'], '%s maxread=%d expect_exact(%r): after=%r, '
                                      'before ends %r' % (case['tr'], case['maxread'], lit, c.after, short(c.before[-40:])), case)
                        return False
                    handed += c.before + c.after
                    nxt = k + 1
                elif r < 0.5:
                    pat = conv(r'L(\d{5}):')
                    c.expect(pat)
                    acc.count('real_match_clauses')
                    if re.fullmatch(pat, c.after) is None or re.search(pat, c.before) is not None:
                        acc.violation(prefix + ':match-not-leftmost-or-not-genuine:' + case['tr'], '%s maxread=%d expect(%r): after=%r, '
                                      'before ends %r' % (case['tr'], case['maxread'], pat, c.after, short(c.before[-40:])), case)
                        return False
                    handed += c.before + c.after
                    nxt = int(c.match.group(1)) + 1
                elif r < 0.7:
                    got = c.readline()
                    handed += got
                    if got == conv(''):
                        ended = True
                elif r < 0.85:
                    n = rng.choice([1, 5, 50, 700])
                    got = c.read(n)
                    handed += got
                    if len(got) < n:
                        ended = True
                elif r < 0.9:
                    c.expect(EOF)
                    handed += c.before
                    ended = True
                else:
                    c.expect_exact([conv('\x00never'), TIMEOUT], timeout=0.01)
            except EOF:
                handed += c.before
                ended = True
            except TIMEOUT:
                acc.violation(prefix + ':call-times-out', '%s maxread=%d: a call timed out after %d calls although the peer had '
                              'written everything and ended' % (case['tr'], case['maxread'], ops), case)
                return False
        acc.count('real_ledger_evaluations')
        if handed != stream:
            k = next((j for j in range(min(len(handed), len(stream))) if handed[j] != stream[j]), min(len(handed), len(stream)))
            mech = 'text-lost' if len(handed) < len(stream) else 'text-duplicated' if len(handed) > len(stream) else 'text-altered'
            acc.violation('%s:%s:%s' % (prefix, mech, case['tr']), '%s %s maxread=%d peer ended %s: handed back %d items, the peer wrote %d; '
                          'first difference at %d: %r vs %r' % (case['tr'], enc or 'bytes', case['maxread'], case['end'], len(handed),
                                                             len(stream), k, short(handed[k:k + 30]), short(stream[k:k + 30])), case)
            return False
        if sib is not None:
            _os.write(sib_w, b'\xa9 au lait\n')
            sib.expect_exact('\n', timeout=5)
            if sib.before != 'caf\xe9 au lait':
                acc.violation(prefix + ':sibling-object-text-altered', 'a second %s object read %r, its peer wrote %r' % (
                    enc, sib.before, 'caf\xe9 au lait'), case)
                return False
        acc.nontrivial('real-ledger', case)
        return True
    finally:
        L.cleanup()
        if sib is not None:
            for fd in (sib.child_fd, sib_w):
                try:
                    _os.close(fd)
                except OSError:
                    pass


def run(spec, acc, prefix='real-transport'):
    from ..workloads.gen_expect import rng_for
    if 'replay' in spec:
        cases = [spec['replay']]
    else:
        rng = rng_for(spec['seed'], spec['shard'], 41)
        cases = (gen_case(rng) for _ in range(spec['n']))
    for case in cases:
        try:
            with watchdog(180):
                # (the calls of these histories have wall-clock timeouts of their own: on an overloaded machine one
                # of them may expire although nothing is wrong - a violation counts when it reproduces serially)
                confirmed(case, lambda c, a: one(c, a, prefix), acc, retries=1)
        except PeerError as e:
            acc.inconc('peer: %s' % e)
        except CaseTimeout as e:
            acc.violation(prefix + ':call-does-not-return', 'history did not finish within 180 s, two attempts (%s)' % (e,), case)
        if acc.too_many():
            break
