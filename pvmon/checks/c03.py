"""C03 no missed or late match: step predictor (naive re-search model)."""
from . import _expect_common as X
from ..monitors.expect_oracles import step_pred

ID = 'C03'
LEVEL = 'exploration'
RULE = ('scripted histories; the naive model (search all pending text, or its last W characters, after every read) '
        'is run on the same script and every engine-level call must end at the same read with the same '
        '(index|exception, before, after, pending). non-trivial = the call consumed >=2 reads and the reported '
        'occurrence straddles the last read boundary; distinct by (case, call position)')
ASSUMPTIONS = ['models/expect_ref.py is the naive procedure of the property text (slice semantics for windows)',
               'timeout=0 performs at least one read; how many further immediate reads is not specified']
REQUIRED = ['steps_compared', 'matches_after_2plus_reads', 'occurrence_straddles_read_boundary']
plan = X.plan


def run_shard(spec, acc):
    spec = dict(spec, prop=ID)
    X.drive(spec, acc, lambda run, acc: (lambda r, st: step_pred(r, st, acc)))
