"""C03 no missed or late match: step predictor (naive re-search model)."""
from . import _expect_common as X
from . import _async_model as AM
from ..core.runner import split_range
from ..monitors.expect_oracles import step_pred

ID = 'C03'
LEVEL = 'exploration'
RULE = ('scripted histories; the naive model (search all pending text, or its last W characters, after every read) '
        'is run on the same script and every engine-level call must end at the same read with the same '
        '(index|exception, before, after, pending). non-trivial = the call consumed >=2 reads and the reported '
        'occurrence straddles the last read boundary; distinct by (case, call position). The same model is applied to the '
        'asyncio read path (expect*(async_=True) on a pipe, delivery units released one per "no match yet"), including awaits '
        'the caller abandons and text that then arrives while no expect is waiting')
ASSUMPTIONS = ['models/expect_ref.py is the naive procedure of the property text (slice semantics for windows)',
               'timeout=0 performs at least one read; how many further immediate reads is not specified']
REQUIRED = ['steps_compared', 'matches_after_2plus_reads', 'occurrence_straddles_read_boundary', 'async_model_calls',
            'async_model_idle_chunks']


def plan(tier, seed):
    specs = X.plan(tier, seed)
    n, k = (320, 8) if tier == 'quick' else (8000, 16)
    for i, (a, b) in enumerate(split_range(n, k)):
        specs.append({'gen': 'async-model', 'n': b - a, 'shard': 300 + i, 'seed': seed, 'tier': tier})
    n, k = (120, 4) if tier == 'quick' else (3000, 12)
    for i, (a, b) in enumerate(split_range(n, k)):
        # real transports, reads of 1..2000 characters: numbered lines found by expect_exact / expect, none skipped
        specs.append({'gen': 'real-ledger', 'n': b - a, 'shard': 400 + i, 'seed': seed, 'tier': tier})
    return specs


def run_shard(spec, acc):
    spec = dict(spec, prop=ID)
    if spec.get('gen') == 'real-ledger' or (isinstance(spec.get('replay'), dict) and spec['replay'].get('real')):
        from . import _real_ledger as RL
        return RL.run(spec, acc)
    if spec.get('gen') == 'async-model' or (isinstance(spec.get('replay'), dict) and 'calls' in spec['replay']
                                            and 'idle' in (spec['replay']['calls'] or [{}])[0]):
        return AM.run(spec, acc)
    X.drive(spec, acc, lambda run, acc: (lambda r, st: step_pred(r, st, acc)))
