"""C18 ANSI emulator: total, shape preserving, residue free, independent of how
the input is chunked."""
import itertools
import os
import tempfile
import warnings

from ..core.runner import split_range
from ..workloads.gen_expect import rng_for, all_splittings

warnings.filterwarnings('ignore', category=UserWarning)
warnings.filterwarnings('ignore', category=DeprecationWarning)

ID = 'C18'
LEVEL = 'exploration'
RULE = ('token sequences over printables, CR/LF/BS/TAB/BEL/CAN/SUB/NUL/DEL, every escape sequence the FSM knows with each '
        'parameter in {omitted, 0, 1, 2, in range, == size, > size, 10^9}, unknown finals, truncated sequences, ESC ESC: '
        'ALL sequences up to the tier bound on tiny screens (enumerated) + random sequences of 5..60 tokens on screens up '
        'to 24x80, as str and as bytes through latin-1 / utf-8 / cp437 / cp932 / gbk / big5 decoders (double-byte characters '
        'with ASCII-range trail bytes; malformed and truncated byte sequences). After every write: no exception, grid '
        'rows x cols single characters, cursor on screen, FSM in INIT => parameter stack empty. Every input is also fed '
        'in pieces (all cut points, up to 3 cuts, for inputs <= 10 units, incl. cuts inside escape sequences and inside '
        'multi-byte characters; random cuts beyond; one character at a time through process()) and must give the same '
        '(screen, cursor, saved cursor, scroll behaviour probe, FSM state, stack, decoder state). non-trivial = the '
        'input contains an escape sequence and changes the screen or cursor; distinct by (screen size, input, type)')
ASSUMPTIONS = ['process(bytes) of a partial multi-byte character is outside the documented contract and is not fed',
               'the emulator appends to ./log on unknown sequences: the workload runs in a scratch cwd with log -> /dev/null']
REQUIRED = ['writes', 'invariant_evaluations', 'chunkings_compared', 'enumerated_sequences', 'escape_sequences_fed',
            'bytes_inputs', 'cuts_inside_multibyte']

ESC = '\x1b'


def tokens(rows, cols, full=True):
    P = ['', '0', '1', '2', str(max(rows, cols)), str(max(rows, cols) + 1), '1000000000']
    if not full:
        P = ['', '0', '2', str(rows + 1)]
    t = ['a', 'Z', ' ', '\xe9', '\r', '\n', '\b', '\t', '\x07', '\x18', '\x1a', '\x00', '\x7f']
    for p in P:
        for f in 'ABCDJK':
            t.append(ESC + '[' + p + f)
    P2 = ['0', '1', '2', str(rows), str(rows + 1), '1000000000'] if full else ['0', '1', str(rows + 1)]
    for p in P2:
        for q in P2:
            for f in 'Hfr':
                t.append(ESC + '[' + p + ';' + q + f)
    t += [ESC + '[H', ESC + '[r', ESC + '[m', ESC + '[1m', ESC + '[0;1m', ESC + '[0;1;7m', ESC + '[1;2;3;4m',
          ESC + '[2q', ESC + '[0;1q', ESC + '[1;2;3q', ESC + '[4l', ESC + '[?47h', ESC + '[?47l', ESC + '[?1l',
          ESC + '7', ESC + '8', ESC + 'M', ESC + '>', ESC + '<', ESC + '=', ESC + '#8', ESC + '#3', ESC + '(A',
          ESC + ')B', ESC + '(0', ESC + '(Z', ESC + 'D', ESC + 'E', ESC + 'z', ESC + ESC, ESC + '[z', ESC + '[5z',
          ESC + '[5;6z', ESC + '[5;6;7z', ESC + '[5;z', ESC + '[5;6;z', ESC + '[?z', ESC + '[?5z', ESC + '[\x18',
          ESC + '[5\x1a', ESC, ESC + '[', ESC + '[5', ESC + '[5;', ESC + '[5;6', ESC + '[?', ESC + '[?4',
          ESC + '[5;6;', ESC + '[5;6;7', ESC + '[12;', ESC + '(', ESC + '#']
    # the finals the FSM knows, with fewer / more parameters than they take, and with empty parameters
    if full:
        for f in 'ABCDJKHfrmqlh':
            for ps in ('1;2;3', '4;3;2;1', '1;2', '5', ';', ';5', '5;', '1;2;3;4;5;6', '1;;2'):
                t.append(ESC + '[' + ps + f)
    else:
        t += [ESC + '[1;2;3H', ESC + '[3;2;1f', ESC + '[2;1;2r', ESC + '[1;2;3A', ESC + '[1;2A', ESC + '[2H', ESC + '[;2H', ESC + '[2;r']
    seen, out = set(), []
    for x in t:
        if x not in seen:
            seen.add(x)
            out.append(x)
    return out


def snapshot(t):
    st = t.state
    dec = t.decoder.getstate() if t.decoder is not None else None
    return (str(t), t.cur_r, t.cur_c, t.cur_saved_r, t.cur_saved_c, t.scroll_row_start, t.scroll_row_end,
            st.current_state, tuple(st.memory[1:]), dec)


def invariants(t, rows, cols):
    if len(t.w) != rows:
        return ('grid-shape-broken', 'grid has %d rows, expected %d' % (len(t.w), rows))
    for i, row in enumerate(t.w):
        if len(row) != cols:
            return ('grid-shape-broken', 'row %d has %d cells, expected %d' % (i + 1, len(row), cols))
        for ch in row:
            if not isinstance(ch, str) or len(ch) != 1:
                return ('grid-shape-broken', 'cell %r is not a single character' % (ch,))
    if not (1 <= t.cur_r <= rows and 1 <= t.cur_c <= cols):
        return ('cursor-off-screen', 'cursor (%r,%r) outside %dx%d' % (t.cur_r, t.cur_c, rows, cols))
    st = t.state
    if st.current_state == 'INIT' and len(st.memory) != 1:
        return ('parser-residue', 'FSM back in INIT with stack %r' % (st.memory[1:],))
    if not st.memory or st.memory[0] is not t:
        return ('parser-residue', 'FSM memory[0] is not the screen: %r' % (st.memory[:1],))
    return None


def feed(rows, cols, enc, pieces, acc, how='write'):
    """-> (snapshot | None, violation | None)"""
    from pexpect import ANSI
    t = ANSI.ANSI(rows, cols, encoding=enc) if enc else ANSI.ANSI(rows, cols)
    for pc in pieces:
        acc.count('writes')
        try:
            if how == 'process':
                for ch in pc:
                    t.process(ch)
            else:
                t.write(pc)
        except Exception as e:
            mech = 'write-raises:' + type(e).__name__
            if isinstance(e, ValueError) and 'Exceeds the limit' in str(e):
                mech = 'param-over-int-digit-limit'
            return None, (mech, 'write(%r) raised %r' % (pc[:60], e))
        acc.count('invariant_evaluations')
        bad = invariants(t, rows, cols)
        if bad:
            return None, (bad[0], 'after write(%r): %s' % (pc[:60], bad[1]))
    return snapshot(t), None


def split_at(data, cuts):
    out, a = [], 0
    for c in cuts:
        out.append(data[a:c])
        a = c
    out.append(data[a:])
    return out


def check_input(rows, cols, enc, data, acc, rng, case, exhaustive_cuts):
    """data: str or bytes.  Whole feed + chunkings."""
    acc.case()
    whole, bad = feed(rows, cols, enc, [data], acc)
    if bad:
        acc.violation(bad[0], bad[1], case)
        return False
    n = len(data)
    cutsets = []
    if n <= 10 and exhaustive_cuts:
        for k in range(1, int(exhaustive_cuts) + 1):
            cutsets.extend(itertools.combinations(range(1, n), k))
    else:
        for _ in range(4):
            k = rng.randint(1, min(3, max(1, n - 1))) if n > 1 else 0
            if k:
                cutsets.append(tuple(sorted(rng.sample(range(1, n), k))))
        if n > 1:
            cutsets.append(tuple(range(1, n)))       # one unit at a time
    for cuts in cutsets:
        acc.count('chunkings_compared')
        if isinstance(data, bytes):
            for c in cuts:
                if ((data[c] & 0xC0) == 0x80 and enc == 'utf-8') or (
                        enc in CJK and data[c - 1] >= 0x81 and data[c] < 0x80):
                    acc.count('cuts_inside_multibyte')
                    if data[c] < 0x80:
                        acc.count('cuts_before_ascii_range_trail_byte')
                    break
        else:
            if any(data[max(0, c - 4):c].rfind(ESC) > max(data[max(0, c - 4):c].rfind('m'), -1) for c in cuts):
                acc.count('cuts_inside_escape_sequence')
        got, bad = feed(rows, cols, enc, split_at(data, cuts), acc)
        if bad:
            acc.violation(bad[0], 'chunked at %r: %s' % (cuts, bad[1]), case)
            return False
        if got != whole:
            diff = [i for i in range(len(whole)) if whole[i] != got[i]]
            names = ['screen', 'cur_r', 'cur_c', 'saved_r', 'saved_c', 'scroll_start', 'scroll_end', 'fsm_state',
                     'fsm_stack', 'decoder_state']
            acc.violation('chunking-changes-result:' + names[diff[0]],
                          'cuts %r: %s whole=%r chunked=%r' % (cuts, names[diff[0]], whole[diff[0]], got[diff[0]]), case)
            return False
    if isinstance(data, str) and n > 1:
        acc.count('chunkings_compared')
        got, bad = feed(rows, cols, enc, [data], acc, how='process')
        if bad or got != whole:
            acc.violation('process-differs-from-write', 'process() one character at a time: %r' % (bad or 'state differs',), case)
            return False
    blank = (' ' * cols + '\n') * (rows - 1) + ' ' * cols
    s = data if isinstance(data, str) else data.decode('latin-1')
    if ESC in s:
        acc.count('escape_sequences_fed')
        if whole[0] != blank or whole[1:3] != (1, 1):
            return True
    return False


def plan(tier, seed):
    specs = []
    if tier == 'quick':
        for (r, c) in [(1, 1), (2, 3), (3, 2)]:
            for part in range(4):
                specs.append({'mode': 'enum', 'rows': r, 'cols': c, 'depth': 2, 'part': part, 'parts': 4, 'full': True,
                              'maxcuts': 1 if (r, c) != (2, 3) else 2})
        for i, (a, b) in enumerate(split_range(16000, 4)):
            specs.append({'mode': 'rand', 'n': b - a, 'shard': i, 'seed': seed})
    else:
        for (r, c) in [(1, 1), (2, 3), (3, 2), (2, 2)]:
            for part in range(4):
                specs.append({'mode': 'enum', 'rows': r, 'cols': c, 'depth': 2, 'part': part, 'parts': 4, 'full': True})
        for (r, c) in [(2, 3), (3, 2), (1, 1)]:
            for part in range(16):
                specs.append({'mode': 'enum', 'rows': r, 'cols': c, 'depth': 3, 'part': part, 'parts': 16, 'full': False})
        for i, (a, b) in enumerate(split_range(600000, 16)):
            specs.append({'mode': 'rand', 'n': b - a, 'shard': i, 'seed': seed})
    return specs


def run_shard(spec, acc):
    old = os.getcwd()
    scratch = tempfile.mkdtemp(prefix='pvmon-c18-')
    os.symlink('/dev/null', os.path.join(scratch, 'log'))
    os.chdir(scratch)
    try:
        _run(spec, acc)
    finally:
        os.chdir(old)
        import shutil
        shutil.rmtree(scratch, ignore_errors=True)


ENCS = [None, 'latin-1', 'utf-8', 'cp437', 'utf-8', 'cp932', 'gbk', 'big5']
# double-byte characters whose second byte is in the ASCII range (0x5c, 0x40, 0x5b ...) in cp932 / gbk / big5
CJK = {'cp932': ['表', 'ソ', '十', '能', '日'], 'gbk': ['丂', '中', '乗', '丄'], 'big5': ['功', '許', '中', '蓋']}



def encode_for(s, enc):
    try:
        return s.encode(enc)
    except UnicodeEncodeError:
        return s.encode(enc, 'replace')


def _run(spec, acc):
    import random
    if 'replay' in spec:
        c = spec['replay']
        data = c['data']
        rng = random.Random(1)
        check_input(c['rows'], c['cols'], c['enc'], data, acc, rng, c, 3)
        return
    if spec['mode'] == 'enum':
        rows, cols = spec['rows'], spec['cols']
        toks = tokens(rows, cols, spec['full'])
        acc.seen('list:alphabet_sizes', '%dx%d depth %d: %d tokens' % (rows, cols, spec['depth'], len(toks)))
        rng = random.Random(spec['part'])
        k = 0
        for depth in range(1, spec['depth'] + 1):
            for seq in itertools.product(toks, repeat=depth):
                k += 1
                if k % spec['parts'] != spec['part']:
                    continue
                s = ''.join(seq)
                acc.count('enumerated_sequences')
                case = {'rows': rows, 'cols': cols, 'enc': None, 'data': s}
                # str input; every 7th sequence additionally as utf-8 bytes
                if check_input(rows, cols, None, s, acc, rng, case, spec.get('maxcuts', 3) if depth <= 2 else 0):
                    acc.count('_distinct_by_construction')
                if k % 7 == 0:
                    acc.count('bytes_inputs')
                    b = s.encode('utf-8')
                    check_input(rows, cols, 'utf-8', b, acc, rng,
                                {'rows': rows, 'cols': cols, 'enc': 'utf-8', 'data': b}, 3 if depth <= 1 else 0)
                if acc.evaluations == 3000:
                    acc.sample(case)
        acc.count('enumerations_completed')
        return
    rng = rng_for(spec['seed'], spec['shard'], 18)
    for i in range(spec['n']):
        rows, cols = rng.choice([(1, 1), (2, 3), (3, 2), (4, 5), (24, 80), (5, 10), (1, 7), (6, 1)])
        toks = tokens(rows, cols, True)
        extra = ['€', 'é́', 'hello world', '\r\n', ESC + '[' + str(rng.randint(0, 99)) + ';' + str(rng.randint(0, 99)) + 'H']
        enc = rng.choice(ENCS)
        extra = extra + CJK.get(enc, [])
        seq = [rng.choice(toks) if rng.random() < 0.9 else rng.choice(extra) for _ in range(rng.randint(5, 60))]
        s = ''.join(seq)
        if i % 997 == 3:
            # a parameter longer than CPython's int() digit limit
            s = s + ESC + '[' + '9' * 4400 + 'A'
        if enc is None:
            data = s
        else:
            acc.count('bytes_inputs')
            data = encode_for(s, enc)
            if enc in ('utf-8', 'cp932', 'gbk', 'big5') and rng.random() < 0.3:
                # malformed input: stray lead / continuation bytes, characters truncated by what follows
                acc.count('malformed_bytes_inputs')
                b = bytearray(data)
                for _ in range(rng.randint(1, 3)):
                    b.insert(rng.randint(0, len(b)), rng.choice([0x81, 0x83, 0x95, 0xc3, 0xe2, 0xf0, 0x80, 0xff]))
                data = bytes(b)
        case = {'rows': rows, 'cols': cols, 'enc': enc, 'data': data}
        if check_input(rows, cols, enc, data, acc, rng, case, False):
            acc.nontrivial('c18', rows, cols, enc, data)
        if acc.evaluations <= 2:
            acc.sample({'rows': rows, 'cols': cols, 'enc': enc, 'data': repr(data)})


def coverage_extra(acc, tier):
    return {'exhaustive': False,
            'exhaustive_subspaces_completed': acc.counters.get('enumerations_completed', 0)}
