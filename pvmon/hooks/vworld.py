"""H3: virtual time + virtual descriptors.

A World owns a VClock, a table of virtual descriptors with scripted arrival
times, and stand-ins for the `os`, `select` and `time` module attributes of the
pexpect modules.  While installed, the real fdspawn / spawn(pty class) /
SocketSpawn / PopenSpawn read paths and utils.select_ignore_interrupts /
poll_ignore_interrupts run on logical time: a wait either finds data that has
"arrived", or jumps the clock to min(next arrival, now + timeout).
"""
import errno
import os as _os
import queue as _queue
import select as _select
import socket as _socket

from .vclock import VClock


class WouldBlockForever(Exception):
    """A wait with timeout=None and nothing scheduled to arrive: a hang,
    decided logically."""


class VFD(object):
    """events: list of (abs_time, payload) sorted by time; payload is bytes,
    or 'EOF' (orderly end: read returns b''), or 'HUP' (pty style: EIO)."""

    def __init__(self, world, number, events):
        self.world = world
        self.number = number
        self.events = list(events)
        self.buf = bytearray()
        self.end = None
        self.reads = 0

    def _arrive(self, now):
        while self.events and self.events[0][0] <= now:
            t, p = self.events.pop(0)
            if isinstance(p, (bytes, bytearray)):
                self.buf.extend(p)
            else:
                self.end = p
                self.events = []

    def ready(self, now):
        self._arrive(now)
        return bool(self.buf) or self.end is not None

    def next_arrival(self):
        return self.events[0][0] if self.events else None

    def read(self, n):
        self.reads += 1
        self._arrive(self.world.clock.peek())
        if self.buf:
            d = bytes(self.buf[:n])
            del self.buf[:n]
            return d
        if self.end == 'HUP':
            raise OSError(errno.EIO, 'Input/output error (virtual pty)')
        if self.end == 'EOF':
            return b''
        raise BlockingIOError(errno.EAGAIN, 'virtual descriptor would block')


class World(object):
    BASE = 7000

    def __init__(self):
        self.clock = VClock()
        self.fds = {}
        self.next = self.BASE
        self.eintr = []            # absolute instants at which a wait is interrupted
        self.trace = []
        self.waits = 0
        self.os = OsProxy(self)
        self.select = SelectProxy(self)
        self.saved = []

    def new_fd(self, events):
        n = self.next
        self.next += 1
        self.fds[n] = VFD(self, n, events)
        return n

    # -- the core wait
    def wait(self, fds, timeout):
        """-> list of ready fds (may be empty after `timeout`)."""
        self.waits += 1
        clock = self.clock
        now = clock.peek()
        if timeout is not None and timeout < 0:
            raise ValueError('timeout must be non-negative')
        ready = [fd for fd in fds if fd in self.fds and self.fds[fd].ready(now)]
        if ready:
            self.trace.append(('ready', now))
            return ready
        arrivals = [self.fds[fd].next_arrival() for fd in fds if fd in self.fds]
        arrivals = [a for a in arrivals if a is not None]
        nxt = min(arrivals) if arrivals else None
        limit = None if timeout is None else now + timeout
        # a signal handled by the parent while it waits
        while self.eintr and self.eintr[0] <= now:
            self.eintr.pop(0)
        if self.eintr:
            ti = self.eintr[0]
            if (limit is None or ti < limit) and (nxt is None or ti < nxt):
                self.eintr.pop(0)
                clock.now = ti
                self.trace.append(('eintr', ti))
                raise InterruptedError(errno.EINTR, 'Interrupted system call (virtual)')
        if nxt is not None and (limit is None or nxt <= limit):
            clock.now = max(clock.now, nxt)
            self.trace.append(('arrival', clock.now))
            return [fd for fd in fds if fd in self.fds and self.fds[fd].ready(clock.now)]
        if limit is None:
            raise WouldBlockForever()
        clock.now = max(clock.now, limit)
        self.trace.append(('timeout', clock.now))
        return []

    # -- installation
    def install(self):
        import pexpect.expect
        import pexpect.fdpexpect
        import pexpect.popen_spawn
        import pexpect.pty_spawn
        import pexpect.spawnbase
        import pexpect.utils
        reps = [(pexpect.expect, 'time', self.clock), (pexpect.utils, 'time', self.clock),
                (pexpect.pty_spawn, 'time', self.clock), (pexpect.popen_spawn, 'time', self.clock),
                (pexpect.utils, 'select', self.select), (pexpect.spawnbase, 'os', self.os),
                (pexpect.fdpexpect, 'os', self.os)]
        for mod, name, obj in reps:
            self.saved.append((mod, name, getattr(mod, name)))
            setattr(mod, name, obj)
        return self

    def uninstall(self):
        for mod, name, old in reversed(self.saved):
            setattr(mod, name, old)
        self.saved = []

    __enter__ = install

    def __exit__(self, *a):
        self.uninstall()


class OsProxy(object):
    def __init__(self, world):
        self._w = world

    def read(self, fd, n):
        v = self._w.fds.get(fd)
        if v is None:
            return _os.read(fd, n)
        return v.read(n)

    def fstat(self, fd):
        if fd in self._w.fds:
            return _os.stat('/dev/null')
        return _os.fstat(fd)

    def close(self, fd):
        if fd in self._w.fds:
            del self._w.fds[fd]
            return None
        return _os.close(fd)

    def __getattr__(self, name):
        return getattr(_os, name)


class Poller(object):
    def __init__(self, world):
        self._w = world
        self.fds = []

    def register(self, fd, mask=0):
        self.fds.append(fd)

    def unregister(self, fd):
        self.fds.remove(fd)

    def poll(self, timeout_ms=None):
        t = None if timeout_ms is None else timeout_ms / 1000.0
        if t is not None and t < 0:
            t = None               # poll(): negative means infinite
        out = []
        for fd in self._w.wait(self.fds, t):
            v = self._w.fds.get(fd)
            if v is not None and not v.buf and v.end is not None:
                # what the kernel reports for a pipe or pty whose other side has gone and that holds no more data:
                # a bare hang-up, no POLLIN
                out.append((fd, _select.POLLHUP))
            elif v is not None and v.end is not None:
                out.append((fd, _select.POLLIN | _select.POLLHUP))
            else:
                out.append((fd, _select.POLLIN))
        return out


class SelectProxy(object):
    def __init__(self, world):
        self._w = world
        self.error = _select.error

    def select(self, r, w, x, timeout=None):
        return (self._w.wait(list(r), timeout), [], [])

    def poll(self):
        return Poller(self._w)

    def __getattr__(self, name):
        return getattr(_select, name)


class FakeSocket(object):
    """Stand-in for a connected socket on a virtual descriptor (SocketSpawn
    uses only fileno/settimeout/gettimeout/recv/sendall/shutdown/close)."""

    def __init__(self, world, events):
        self._w = world
        self.fd = world.new_fd(events)
        self.timeout = None
        self.settimeout_log = []

    def fileno(self):
        return self.fd

    def gettimeout(self):
        return self.timeout

    def settimeout(self, t):
        self.settimeout_log.append(t)
        self.timeout = t

    def recv(self, size):
        v = self._w.fds[self.fd]
        t = self.timeout
        got = self._w.wait([self.fd], t) if (t is None or t > 0) else (
            [self.fd] if v.ready(self._w.clock.peek()) else [])
        if not got:
            if t == 0:
                raise BlockingIOError(errno.EAGAIN, 'Resource temporarily unavailable')
            raise _socket.timeout('timed out')
        try:
            return v.read(size)
        except OSError:
            return b''

    def sendall(self, b):
        pass

    def shutdown(self, how):
        pass

    def close(self):
        self.fd = -1


class FakePtyProc(object):
    """Stand-in for ptyprocess.PtyProcess: liveness and echo follow a script
    on the virtual clock."""

    def __init__(self, world, fd, exit_at=None, echo_off_at=None):
        self._w = world
        self.fd = fd
        self.pid = 999999
        self.exit_at = exit_at
        self.echo_off_at = echo_off_at
        self.flag_eof = False
        self.status = self.exitstatus = self.signalstatus = None
        self.isalive_calls = 0
        self.getecho_calls = 0

    def isalive(self):
        self.isalive_calls += 1
        if self.exit_at is not None and self._w.clock.peek() >= self.exit_at:
            self.status, self.exitstatus = 0, 0
            return False
        return True

    def getecho(self):
        self.getecho_calls += 1
        return not (self.echo_off_at is not None and self._w.clock.peek() >= self.echo_off_at)

    def close(self, force=True):
        pass


class QueueFeeder(object):
    """For the PopenSpawn class, which has no wait call: moves scripted chunks
    into the object's queue when their virtual arrival time is reached (hooked
    on every clock movement)."""

    def __init__(self, world, q, events):
        self.q = q
        self.events = list(events)
        world.clock.on_advance = self.tick
        self.tick(world.clock.peek())

    def tick(self, now):
        while self.events and self.events[0][0] <= now:
            t, p = self.events.pop(0)
            self.q.put(p if isinstance(p, (bytes, bytearray)) else None)
