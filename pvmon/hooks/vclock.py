"""Virtual clock.  Installed in place of the `time` module attribute of the
pexpect modules under test (pexpect.expect.time, pexpect.utils.time, ...), so
deadline verdicts are decided on logical time and do not depend on machine
load.  time() is strictly increasing: every reading costs TICK (1 us), like a
real clock that is read by running code."""
import time as _real_time

TICK = 1e-6


class VClock(object):
    def __init__(self, start=1000.0):
        self.now = start
        self.readings = 0
        self.sleeps = 0
        self.on_advance = None   # optional hook(now) called after the clock moved
        self.horizon = None      # beyond this instant a sleeper is declared hung

    def time(self):
        self.readings += 1
        self.now += TICK
        if self.on_advance:
            self.on_advance(self.now)
        return self.now

    def monotonic(self):
        return self.time()

    def sleep(self, d):
        self.sleeps += 1
        if d and d > 0:
            self.now += d
        if self.horizon is not None and self.now > self.horizon:
            from .vworld import WouldBlockForever
            raise WouldBlockForever()
        if self.on_advance:
            self.on_advance(self.now)

    def advance(self, d):
        if d > 0:
            self.now += d
        if self.on_advance:
            self.on_advance(self.now)

    def peek(self):
        return self.now

    # anything else (strftime ...) goes to the real module
    def __getattr__(self, name):
        return getattr(_real_time, name)


class patched(object):
    """Context manager: replace attribute `name` of each module in `mods`."""

    def __init__(self, mods, name, obj):
        self.mods, self.name, self.obj = mods, name, obj
        self.saved = []

    def __enter__(self):
        for m in self.mods:
            self.saved.append((m, getattr(m, self.name)))
            setattr(m, self.name, self.obj)
        return self.obj

    def __exit__(self, *a):
        for m, old in self.saved:
            setattr(m, self.name, old)
        self.saved = []
