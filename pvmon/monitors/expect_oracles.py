"""Oracles for C01..C04 over the steps of a scripted history.

Each oracle is a class with feed(run, step) -> list of (mechanism, detail);
mechanisms are stable, descriptive keys (used by known_findings.json).
"""
from ..models.expect_ref import EOF_M, TIMEOUT_M, naive_search, marker_index


def short(x, n=60):
    try:
        if len(x) > 4 * n:
            x = x[:n]
            return repr(x)[:n] + '...'
    except TypeError:
        pass
    r = repr(x)
    return r if len(r) <= n else r[:n] + '...'


# --------------------------------------------------------------------- C01

class Ledger(object):
    """Stream ledger, model-free: uses only what a user can see at the API."""

    def __init__(self, run, acc):
        self.run = run
        self.acc = acc
        self.st = run.child.string_type
        self.handed = self.st()        # engine-level before+after, in order
        self.pending = self.st()       # shadow pending, from public attributes
        self.recv = self.st()          # adjusted received text
        self.ret_handed = self.st()    # return-value level
        self.nreads_seen = 0
        self.after_timeout = False

    def feed(self, run, st):
        out = []
        c = run.child
        op = st.op['op']
        if op == 'setbuf':
            v = run.conv(st.op['v'])
            self.acc.count('buffer_assignments')
            self.pending = v
            self.recv = self.handed + v
            self.ret_handed = self.handed
            if c.buffer != v:
                out.append(('buffer-assign-readback', 'buffer reads back %s after assigning %s'
                            % (short(c.buffer), short(v))))
            return out
        for rec in st.calls:
            got = self.st()
            for ev in rec.read_log:
                if ev[0] == 'd':
                    got = got + ev[1]
            self.recv = self.recv + got
            self.acc.count('ledger_calls')
            for nm in ('before', 'buffer'):
                v = getattr(rec, nm)
                if not isinstance(v, self.st):
                    out.append(('wrong-string-type', '%s is %s' % (nm, type(v).__name__)))
            if rec.kind == 'match':
                if not isinstance(rec.after, self.st):
                    out.append(('wrong-string-type', 'after is %s' % type(rec.after).__name__))
                    continue
                self.handed = self.handed + rec.before + rec.after
                self.pending = rec.buffer
                self.acc.count('ledger_match')
            elif rec.kind == 'eof':
                self.handed = self.handed + rec.before
                self.pending = self.st()
                self.acc.count('ledger_eof')
                if rec.buffer != self.st():
                    out.append(('eof-pending-not-cleared', 'buffer=%s after EOF' % short(rec.buffer)))
            elif rec.kind == 'timeout':
                self.acc.count('ledger_timeout')
                expect_pending = self.pending + got
                if rec.before != expect_pending:
                    out.append((self._loss_mech(rec, expect_pending, 'timeout-before-not-pending'),
                                'after TIMEOUT before=%s but pending+received=%s (searched %s)'
                                % (short(rec.before), short(expect_pending), st.op)))
                self.pending = rec.before
            else:
                # hang / foreign exception: `before` must still be all pending
                self.pending = self.pending + got
                continue
            if self.handed + self.pending != self.recv:
                out.append((self._loss_mech(rec, None, 'conservation-broken'),
                            'handed+pending=%s received=%s after %s -> %s before=%s after=%s buffer=%s'
                            % (short(self.handed + self.pending, 90), short(self.recv, 90),
                               st.op, rec.kind, short(rec.before), short(rec.after), short(rec.buffer))))
                # resynchronise so that one loss is reported once
                self.recv = self.handed + self.pending
        # return values of the file-like calls: the documented composition of
        # before/after of their engine-level calls
        if op in ('read', 'readline', 'readlines', 'iter') and st.exc is None:
            self.acc.count('ledger_filelike_returns')
            crlf = run.crlf
            exp = None
            if op == 'read':
                if st.op.get('n', -1) == 0:
                    exp = self.st()
                elif st.calls:
                    r0 = st.calls[-1]
                    exp = r0.after if (r0.kind == 'match') else r0.before
            elif op == 'readline' and st.calls:
                r0 = st.calls[-1]
                exp = r0.before + r0.after if r0.kind == 'match' else r0.before
            elif st.calls:
                exp = []
                for r0 in st.calls:
                    ln = r0.before + r0.after if r0.kind == 'match' else r0.before
                    if ln:
                        exp.append(ln)
            if exp is not None and st.ret != exp:
                out.append(('filelike-return-not-composition',
                            '%s returned %s; before/after of its calls give %s' % (op, short(st.ret), short(exp))))
            if op == 'read' and st.calls and st.calls[-1].kind == 'match' and st.calls[-1].before:
                # text outside the search window is skipped by read(n): it stays
                # available in `before`, which is what the property counts
                self.acc.count('observation_read_n_left_text_in_before')
        return out

    def _loss_mech(self, rec, expect_pending, default):
        return default


# --------------------------------------------------------------------- C02

def match_post(run, st, acc):
    """Match postcondition, model-free: X = before+after+buffer is the pending
    text at the moment of the match; every listed pattern is searched
    independently on its last W characters."""
    out = []
    for j, rec in enumerate(st.calls):
        if rec.kind != 'match' or j >= len(st.specs):
            continue
        pats, W, T, direct = st.specs[j]
        acc.count('postcond_evaluated')
        i = rec.index
        if not isinstance(i, int) or i < 0 or i >= len(pats) or pats[i][0] == 'm':
            out.append(('index-not-a-text-pattern', 'returned %r for %s' % (i, st.op)))
            continue
        if rec.match_index != i:
            out.append(('match_index-differs', 'returned %r match_index %r' % (i, rec.match_index)))
        X = rec.before + rec.after + rec.buffer
        Wt = X[-W:] if W else X
        off = len(X) - len(Wt)
        pos = len(rec.before) - off
        if pos < 0:
            out.append(('match-outside-window', 'match starts %d before the window (W=%r) %s'
                        % (-pos, W, st.op)))
            continue
        k, p = pats[i]
        # (a) genuine at that position
        if k == 're':
            ok = False
            # the leftmost-search result at pos must have this extent
            ms = p.search(Wt, pos)
            if ms is not None and ms.start() == pos and ms.group(0) == rec.after:
                ok = True
            if not ok:
                out.append(('after-not-matched-by-pattern',
                            'pattern %r does not match %s at %d of %s' % (p.pattern, short(rec.after), pos, short(Wt))))
            mo = rec.match
            if not hasattr(mo, 'group'):
                out.append(('match-attr-wrong', 'match is %r for a regex' % (mo,)))
            else:
                if mo.group(0) != rec.after or (mo.end() - mo.start()) != len(rec.after):
                    out.append(('match-attr-wrong', 'match.group(0)=%s after=%s' % (short(mo.group(0)), short(rec.after))))
                if direct and (mo.re.pattern != p.pattern or mo.re.flags != p.flags):
                    out.append(('match-attr-wrong', 'match.re=%r flags %r, pattern %d is %r flags %r'
                                % (mo.re.pattern, mo.re.flags, i, p.pattern, p.flags)))
                elif ms is not None and ms.start() == pos and mo.groups() != ms.groups():
                    out.append(('match-attr-wrong', 'groups %r vs %r' % (mo.groups(), ms.groups())))
        else:
            if Wt[pos:pos + len(p)] != p or rec.after != p:
                out.append(('after-not-matched-by-pattern',
                            'literal %s not at %d of %s (after=%s)' % (short(p), pos, short(Wt), short(rec.after))))
            if rec.match != p:
                out.append(('match-attr-wrong', 'match=%s for literal %s' % (short(rec.match), short(p))))
        # (b) leftmost, (c) lowest index on ties
        occ = 0
        for jx, (kk, pp) in enumerate(pats):
            if kk == 'm':
                continue
            if kk == 're':
                mm = pp.search(Wt)
                s = mm.start() if mm else -1
            else:
                s = Wt.find(pp)
            if s < 0:
                continue
            occ += 1
            if s < pos:
                out.append(('not-leftmost', 'pattern %d occurs at %d < %d in %s (%s)'
                            % (jx, s, pos, short(Wt), st.op)))
                break
            if s == pos and jx < i:
                out.append(('not-lowest-index', 'pattern %d also matches at %d, returned %d (%s)'
                            % (jx, pos, i, st.op)))
                break
        if occ >= 2:
            acc.count('postcond_competing')
            acc.nontrivial('c02', [(a, getattr(b, 'pattern', b)) for a, b in pats], X, W)
    return out


# --------------------------------------------------------------------- C03

def step_pred(run, st, acc):
    """Real call vs naive procedure: same step, same outcome."""
    out = []
    n = max(len(st.calls), len(st.outs))
    for j in range(n):
        if j >= len(st.calls):
            out.append(('engine-call-missing', 'model expects %d engine calls for %s, real made %d'
                        % (len(st.outs), st.op, len(st.calls))))
            break
        if j >= len(st.outs):
            out.append(('engine-call-extra', 'real made an extra engine call for %s' % (st.op,)))
            break
        rec, o = st.calls[j], st.outs[j]
        acc.count('steps_compared')
        if rec.kind.startswith('error'):
            out.append(('foreign-exception', '%s raised %s; model: %r' % (st.op, rec.exc, o)))
            break
        if rec.kind != o.kind:
            if o.kind == 'match' and rec.kind in ('timeout', 'eof'):
                mech = 'missed-match'
            elif rec.kind == 'match':
                mech = 'phantom-or-early-match'
            else:
                mech = 'outcome-kind-differs'
            out.append((mech, '%s: real %s(reads=%d before=%s) model %r' % (
                st.op, rec.kind, rec.reads, short(rec.before), o)))
            break
        if o.kind == 'match':
            if rec.reads != o.reads:
                out.append(('late-match' if rec.reads > o.reads else 'early-match',
                            '%s: real matched after %d reads, naive after %d; real before=%s after=%s'
                            % (st.op, rec.reads, o.reads, short(rec.before), short(rec.after))))
                break
            if (rec.index, rec.before, rec.after, rec.buffer) != (o.index, o.before, o.after, o.pending):
                if rec.index == o.index and rec.after == o.after and rec.buffer == o.pending:
                    mech = 'before-differs'
                elif rec.before + rec.after + rec.buffer == o.before + o.after + o.pending:
                    mech = 'different-occurrence'
                else:
                    mech = 'match-result-differs'
                out.append((mech, '%s: real idx=%r before=%s after=%s buffer=%s; model %r' % (
                    st.op, rec.index, short(rec.before), short(rec.after), short(rec.buffer), o)))
                break
            # non-trivial: straddles a read boundary
            if rec.reads >= 2:
                acc.count('matches_after_2plus_reads')
                last = rec.read_log[-1][1] if rec.read_log and rec.read_log[-1][0] == 'd' else ''
                if 0 < len(last) - len(rec.buffer) < len(rec.after):
                    acc.count('occurrence_straddles_read_boundary')
                    acc.nontrivial('c03', run.case, st.i)
        elif o.kind in ('timeout', 'eof'):
            if rec.reads != o.reads:
                out.append(('reads-differ-on-' + o.kind, '%s: real %d reads model %d' % (st.op, rec.reads, o.reads)))
                break
            pend_real = rec.before if o.kind == 'timeout' else rec.buffer
            if rec.before != o.before or pend_real != o.pending:
                out.append(('pending-differs-on-' + o.kind, '%s: real before=%s model before=%s' % (
                    st.op, short(rec.before), short(o.before))))
                break
    if not out and run.child.cursor.position() != run.ref.cur.position():
        out.append(('script-position-differs', '%s: real %r model %r' % (
            st.op, run.child.cursor.position(), run.ref.cur.position())))
    return out


# --------------------------------------------------------------------- C04

def outcome_shape(run, st, acc):
    out = []
    c = run.child
    for j, rec in enumerate(st.calls):
        if j >= len(st.specs) or j >= len(st.outs):
            break
        pats, W, T, direct = st.specs[j]
        o = st.outs[j]
        if rec.kind.startswith('error'):
            out.append(('foreign-exception', '%s raised %s while the stream merely %s' % (
                st.op, rec.exc, o.kind)))
            continue
        # an occurrence in the searchable pending text wins over EOF/TIMEOUT
        if o.kind == 'match' and rec.kind in ('eof', 'timeout'):
            acc.count('pending_occurrence_checks')
            out.append(('marker-beats-pending-occurrence',
                        '%s: %s reported although the naive search matches %r' % (st.op, rec.kind, o)))
            continue
        if o.kind == 'match':
            if o.reads == 0:
                acc.count('pending_occurrence_checks')
            continue
        if rec.kind not in ('eof', 'timeout'):
            continue
        acc.count('marker_outcomes')
        which = EOF_M if rec.kind == 'eof' else TIMEOUT_M
        listed = marker_index(pats, which)
        if listed >= 0:
            acc.count('marker_listed')
            if rec.exc is not None:
                out.append(('listed-marker-raised', '%s listed at %d but %s raised (%s)' % (
                    which, listed, rec.exc, st.op)))
            else:
                if rec.index != listed:
                    out.append(('marker-wrong-index', '%s listed at %d, returned %r (%s)' % (
                        which, listed, rec.index, st.op)))
                if rec.match_index != rec.index:
                    out.append(('marker-match_index', 'match_index=%r returned %r' % (rec.match_index, rec.index)))
                mcls = getattr(rec.match, '__name__', None)
                if mcls != which:
                    out.append(('marker-match-attr', 'match=%r for %s' % (rec.match, which)))
        else:
            acc.count('marker_unlisted')
            if rec.exc is None:
                out.append(('unlisted-marker-returned', '%s not listed but call returned %r (%s)' % (
                    which, rec.index, st.op)))
            elif rec.exc != which:
                out.append(('wrong-exception-class', '%s raised for %s' % (rec.exc, which)))
            else:
                if rec.match is not None or rec.match_index is not None:
                    out.append(('marker-match-attr', 'match=%r match_index=%r after raising' % (
                        rec.match, rec.match_index)))
        if rec.after != which:
            out.append(('after-not-marker', 'after=%s for %s' % (short(rec.after), which)))
        if rec.kind == o.kind and rec.before != o.before:
            out.append(('before-not-all-pending', '%s: before=%s, all pending=%s (%s)' % (
                rec.kind, short(rec.before), short(o.before), st.op)))
        if rec.kind == 'eof' and rec.buffer != run.empty:
            out.append(('eof-pending-not-cleared', 'buffer=%s' % short(rec.buffer)))
        if rec.kind != o.kind:
            out.append(('outcome-kind-differs', '%s: real %s model %r' % (st.op, rec.kind, o)))
        if (rec.before or len([p for p in pats if p[0] != 'm']) > 0) and listed >= 0:
            acc.nontrivial('c04', run.case, st.i)
        elif rec.before:
            acc.nontrivial('c04', run.case, st.i)
        # sticky EOF: a call made after the first EOF reports EOF again
        if rec.kind == 'eof' and getattr(run, 'eof_seen', False):
            acc.count('calls_after_eof_report_eof')
        if rec.kind == 'eof':
            run.eof_seen = True
    return out
