"""H9: passive monitors that can be attached to *any* execution of pexpect (the
repository's own tests, real children, kernel-chosen chunking).  They use only
what is visible at the API boundary:

* size bound (C06): no read_nonblocking result is longer than `size`;
* stream ledger (C01): text handed back by the expect family + pending ==
  text the read path delivered while expect-family calls were running;
* match postcondition (C02): a reported match is genuine, leftmost and
  lowest-index in X = before + after + buffer (window = last W characters);
* outcome shape (C04): EOF/TIMEOUT listed -> index, else exactly that class.

install() wraps class attributes; results accumulate in STATE.
"""
import re
import threading

import pexpect
from pexpect import EOF, TIMEOUT
from pexpect.spawnbase import SpawnBase

STATE = {'counters': {}, 'violations': [], 'installed': False}
_lock = threading.Lock()


def count(name, n=1):
    with _lock:
        STATE['counters'][name] = STATE['counters'].get(name, 0) + n


def violation(prop, mech, detail):
    with _lock:
        if len(STATE['violations']) < 200:
            STATE['violations'].append({'property': prop, 'mechanism': mech, 'detail': detail[:600]})


class Shadow(object):
    __slots__ = ('handed', 'pending', 'recv', 'depth', 'valid', 'rdepth', 'last_buffer')

    def __init__(self, obj):
        self.handed = obj.string_type()
        self.pending = obj.buffer
        self.recv = obj.buffer
        self.last_buffer = obj.buffer
        self.depth = 0
        self.rdepth = 0
        self.valid = True


def shadow(obj):
    sh = obj.__dict__.get('_pvmon_shadow')
    if sh is None:
        sh = Shadow(obj)
        obj.__dict__['_pvmon_shadow'] = sh
    return sh


def wrap_read(cls):
    if 'read_nonblocking' not in cls.__dict__:
        return
    orig = cls.__dict__['read_nonblocking']

    def read_nonblocking(self, size=1, timeout=-1):
        sh = shadow(self)
        sh.rdepth += 1
        try:
            r = orig(self, size, timeout)
        finally:
            sh.rdepth -= 1
        if sh.rdepth == 0:
            count('reads_observed')
            try:
                if len(r) > size:
                    violation('C06', 'read-longer-than-size', '%s.read_nonblocking(%r) returned %d items' % (
                        cls.__name__, size, len(r)))
            except TypeError:
                pass
            if sh.depth > 0:
                if isinstance(r, self.string_type):
                    sh.recv = sh.recv + r
                else:
                    sh.valid = False
            else:
                # read directly by the user: not part of the expect ledger
                count('direct_reads')
        return r
    read_nonblocking.__wrapped__ = orig
    cls.read_nonblocking = read_nonblocking


def pats_of(name, a, kw, self):
    """-> (list of ('re', compiled)|('x', lit)|('m', cls), W) or None"""
    try:
        if name == 'expect_list':
            pl = a[0] if a else kw['pattern_list']
            W = a[2] if len(a) > 2 else kw.get('searchwindowsize', -1)
            out = [('m', p) if p in (EOF, TIMEOUT) else ('re', p) for p in pl]
        elif name == 'expect_exact':
            pl = a[0] if a else kw['pattern_list']
            W = a[2] if len(a) > 2 else kw.get('searchwindowsize', -1)
            if isinstance(pl, self.allowed_string_types) or pl in (EOF, TIMEOUT):
                pl = [pl]
            out = []
            for p in pl:
                if p in (EOF, TIMEOUT):
                    out.append(('m', p))
                else:
                    out.append(('x', self._coerce_expect_string(p)))
        else:
            return None
        if W == -1:
            W = self.searchwindowsize
        return out, W
    except Exception:
        return None


def wrap_expect(name):
    orig = SpawnBase.__dict__[name]

    def w(self, *a, **kw):
        if kw.get('async_') or kw.get('async') or (len(a) > 3 and a[3]):
            return orig(self, *a, **kw)
        sh = shadow(self)
        info = pats_of(name, a, kw, self)
        if sh.depth == 0 and self.buffer != sh.last_buffer:
            # the user assigned the buffer, or read around the engine: resynchronise
            sh.pending = self.buffer
            sh.recv = sh.handed + sh.pending
        sh.depth += 1
        ret = exc = None
        try:
            ret = orig(self, *a, **kw)
        except BaseException as e:
            exc = e
        finally:
            sh.depth -= 1
        if sh.depth == 0:
            judge(self, sh, name, info, ret, exc)
            sh.last_buffer = self.buffer
        if exc is not None:
            raise exc
        return ret
    w.__wrapped__ = orig
    setattr(SpawnBase, name, w)


def judge(self, sh, name, info, ret, exc):
    count('expect_calls_observed')
    st = self.string_type
    if exc is None:
        kind = 'eof' if self.after is EOF else 'timeout' if self.after is TIMEOUT else 'match'
    elif type(exc) is EOF:
        kind = 'eof'
    elif type(exc) is TIMEOUT:
        kind = 'timeout'
    else:
        sh.valid = False
        return
    # ---- C04 outcome shape
    if info is not None and kind in ('eof', 'timeout'):
        pats, W = info
        cls = EOF if kind == 'eof' else TIMEOUT
        listed = [i for i, (k, p) in enumerate(pats) if k == 'm' and p is cls]
        count('marker_outcomes_observed')
        if listed and exc is not None:
            violation('C04', 'listed-marker-raised', '%s listed at %r but raised in %s' % (cls.__name__, listed, name))
        if not listed and exc is None:
            violation('C04', 'unlisted-marker-returned', '%s not listed but %s returned %r' % (cls.__name__, name, ret))
        if listed and exc is None and ret != listed[-1]:
            violation('C04', 'marker-wrong-index', '%s listed at %r, returned %r' % (cls.__name__, listed, ret))
        if self.after is not cls:
            violation('C04', 'after-not-marker', 'after=%r' % (self.after,))
    # ---- C01 ledger
    if sh.valid and isinstance(self.before, st):
        if kind == 'match' and isinstance(self.after, st):
            sh.handed = sh.handed + self.before + self.after
            sh.pending = self.buffer
        elif kind == 'eof':
            sh.handed = sh.handed + self.before
            sh.pending = st()
        else:
            sh.pending = self.before
        count('ledger_evaluations')
        if sh.handed + sh.pending != sh.recv:
            violation('C01', 'conservation-broken', '%s -> %s: handed+pending has %d items, received %d; tail %r vs %r' % (
                name, kind, len(sh.handed + sh.pending), len(sh.recv), (sh.handed + sh.pending)[-40:], sh.recv[-40:]))
            sh.recv = sh.handed + sh.pending
        # keep the shadow small
        if len(sh.handed) > 1 << 16:
            k = len(sh.handed) - 1024
            sh.handed = sh.handed[k:]
            sh.recv = sh.recv[k:]
    # ---- C02 postcondition
    if kind == 'match' and info is not None and exc is None:
        pats, W = info
        count('postconditions_evaluated')
        i = ret
        try:
            if not (0 <= i < len(pats)) or pats[i][0] == 'm':
                violation('C02', 'index-not-a-text-pattern', '%s returned %r' % (name, i))
                return
            X = self.before + self.after + self.buffer
            Wt = X[-W:] if W else X
            pos = len(self.before) - (len(X) - len(Wt))
            if pos < 0:
                violation('C02', 'match-outside-window', 'match starts %d before the window' % -pos)
                return
            if self.match_index != i:
                violation('C02', 'match_index-differs', 'returned %r match_index %r' % (i, self.match_index))
            k, p = pats[i]
            if k == 're':
                ms = p.search(Wt, pos)
                if ms is None or ms.start() != pos or ms.group(0) != self.after:
                    violation('C02', 'after-not-matched-by-pattern', 'pattern %r at %d of ...%r: after=%r' % (
                        p.pattern, pos, Wt[-60:], self.after[-60:]))
            elif Wt[pos:pos + len(p)] != p or self.after != p:
                violation('C02', 'after-not-matched-by-pattern', 'literal %r not at %d' % (p, pos))
            for j, (kk, pp) in enumerate(pats):
                if kk == 'm':
                    continue
                s = pp.search(Wt) if kk == 're' else None
                s = (s.start() if s else -1) if kk == 're' else Wt.find(pp)
                if 0 <= s < pos:
                    violation('C02', 'not-leftmost', 'pattern %d occurs at %d < %d' % (j, s, pos))
                    break
                if s == pos and j < i:
                    violation('C02', 'not-lowest-index', 'pattern %d also matches at %d, returned %d' % (j, pos, i))
                    break
        except Exception as e:          # a monitor must never break the test it observes
            count('monitor_errors')


def install():
    if STATE['installed']:
        return
    STATE['installed'] = True
    from pexpect import fdpexpect, popen_spawn, socket_pexpect, pty_spawn
    for cls in (SpawnBase, pty_spawn.spawn, fdpexpect.fdspawn, popen_spawn.PopenSpawn, socket_pexpect.SocketSpawn):
        wrap_read(cls)
    for name in ('expect_list', 'expect_exact'):
        wrap_expect(name)
