"""Reference model of the expect engine: the naive procedure of C03.

state = pending text.  At call start and after every read: search ALL pending
text (its last W characters when a window W is in force - slice semantics) for
the leftmost occurrence of any listed pattern, lowest list index on ties.
Independent of pexpect: uses only `re` and str/bytes methods.
"""
import re

EOF_M = 'EOF'
TIMEOUT_M = 'TIMEOUT'


class DeadlineTie(BaseException):
    """a scripted arrival falls on the deadline itself (to within rounding): whether the reader still gets it depends
    on how the two sides add up their floating point times, not on the subject - the history is not judged further"""


class Hang(Exception):
    """timeout=None and the script has nothing more to deliver."""


def naive_search(pats, text, W):
    """pats: list of ('re', compiled) | ('x', literal) | ('m', EOF_M|TIMEOUT_M).
    Returns (start, end, index, matchobj_or_None) in coordinates of `text`,
    or None."""
    if W:
        window = text[-W:]
    else:
        window = text
    off = len(text) - len(window)
    best = None
    for i, (k, p) in enumerate(pats):
        if k == 'm':
            continue
        if k == 're':
            m = p.search(window)
            if m is None:
                continue
            s, e = m.start(), m.end()
        else:
            s = window.find(p)
            if s < 0:
                continue
            e, m = s + len(p), None
        if best is None or s < best[0]:
            best = (s, e, i, m)
    if best is None:
        return None
    s, e, i, m = best
    return (off + s, off + e, i, m)


def marker_index(pats, which):
    idx = -1
    for i, (k, p) in enumerate(pats):
        if k == 'm' and p == which:
            idx = i         # the engine keeps the LAST listed marker
    return idx


class Outcome(object):
    __slots__ = ('kind', 'index', 'before', 'after', 'span', 'groups',
                 'pending', 'reads', 'raised')

    def __init__(self, kind, index, before, after, span, groups, pending,
                 reads, raised):
        self.kind = kind          # 'match' | 'eof' | 'timeout' | 'hang'
        self.index = index        # list index, or None when raised
        self.before = before
        self.after = after        # text, or EOF_M / TIMEOUT_M
        self.span = span          # (start, end) in pending-at-match coordinates
        self.groups = groups
        self.pending = pending    # pending text after the call
        self.reads = reads        # number of read attempts the call made
        self.raised = raised      # True: the marker was not listed

    def key(self):
        return (self.kind, self.index, self.before, self.after, self.pending,
                self.raised)

    def __repr__(self):
        return 'Outcome(%s idx=%r before=%r after=%r pending=%r reads=%d raised=%r)' % (
            self.kind, self.index, self.before, self.after, self.pending,
            self.reads, self.raised)


class RefEngine(object):
    """Runs engine-level calls against a script cursor (see
    workloads.scripted.Cursor).  `empty` is '' or b''."""

    def __init__(self, cursor, empty, default_timeout, default_w):
        self.cur = cursor
        self.pending = empty
        self.empty = empty
        self.default_timeout = default_timeout
        self.default_w = default_w

    def call(self, pats, T=-1, W=-1, cap=None):
        """cap: maximum number of read attempts (used for T == 0 where the
        number of immediate reads is not fixed by the documentation)."""
        if T == -1:
            T = self.default_timeout
        if W == -1:
            W = self.default_w
        reads = 0
        elapsed = 0.0
        hit = naive_search(pats, self.pending, W)
        while hit is None:
            if T is not None and (T < 0 or T - elapsed < 0):
                return self._timeout(pats, reads)
            if cap is not None and reads >= cap:
                return self._timeout(pats, reads)
            remaining = None if T is None else T - elapsed
            reads += 1
            try:
                kind, data, dt = self.cur.read(remaining)
            except Hang:
                return Outcome('hang', None, self.pending, None, None, None,
                               self.pending, reads, True)
            elapsed += dt
            if kind == 't':
                return self._timeout(pats, reads)
            if kind == 'e':
                return self._eof(pats, reads)
            self.pending = self.pending + data
            hit = naive_search(pats, self.pending, W)
            if T is not None and T == 0 and hit is None:
                # one immediate read was made; time is up
                return self._timeout(pats, reads)
        s, e, i, m = hit
        before, after = self.pending[:s], self.pending[s:e]
        self.pending = self.pending[e:]
        groups = m.groups() if m is not None else None
        return Outcome('match', i, before, after, (s, e), groups,
                       self.pending, reads, False)

    def _timeout(self, pats, reads):
        idx = marker_index(pats, TIMEOUT_M)
        return Outcome('timeout', idx if idx >= 0 else None, self.pending,
                       TIMEOUT_M, None, None, self.pending, reads, idx < 0)

    def _eof(self, pats, reads):
        idx = marker_index(pats, EOF_M)
        before = self.pending
        self.pending = self.empty
        return Outcome('eof', idx if idx >= 0 else None, before, EOF_M, None,
                       None, self.pending, reads, idx < 0)
