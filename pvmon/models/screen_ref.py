"""Reference grid for pexpect.screen, written from the docstrings/comments of
each operation only.  Cells are a character or None (= unspecified by the
documentation; excluded from comparison until overwritten), so the model is
never stricter than the documentation.  Coordinates outside the screen mean
the nearest edge.  1-based rows/columns like the real class."""

SPACE = ' '


def clamp(n, lo, hi):
    return lo if n < lo else hi if n > hi else n


class RefScreen(object):
    def __init__(self, rows, cols):
        self.rows, self.cols = rows, cols
        self.g = [[SPACE] * cols for _ in range(rows)]
        self.cur_r = self.cur_c = 1
        self.sav_r = self.sav_c = 1
        self.top, self.bot = 1, rows

    # ---- helpers
    def _rc(self, r, c):
        return clamp(r, 1, self.rows), clamp(c, 1, self.cols)

    def _fix_cursor(self):
        self.cur_r, self.cur_c = self._rc(self.cur_r, self.cur_c)

    def _box(self, rs, cs, re, ce):
        rs, cs = self._rc(rs, cs)
        re, ce = self._rc(re, ce)
        if rs > re:
            rs, re = re, rs
        if cs > ce:
            cs, ce = ce, cs
        return rs, cs, re, ce

    # ---- writing
    def put_abs(self, r, c, ch):
        r, c = self._rc(r, c)
        self.g[r - 1][c - 1] = ch[0]

    def put(self, ch):
        self.put_abs(self.cur_r, self.cur_c, ch)

    def insert_abs(self, r, c, ch):
        r, c = self._rc(r, c)
        row = self.g[r - 1]
        row[c:] = row[c - 1:-1]          # shifted right, last character lost
        row[c - 1] = ch[0]

    def insert(self, ch):
        self.insert_abs(self.cur_r, self.cur_c, ch)

    def fill_region(self, rs, cs, re, ce, ch=SPACE):
        rs, cs, re, ce = self._box(rs, cs, re, ce)
        for r in range(rs, re + 1):
            for c in range(cs, ce + 1):
                self.g[r - 1][c - 1] = ch[0]

    def fill(self, ch=SPACE):
        self.fill_region(1, 1, self.rows, self.cols, ch)

    # ---- cursor
    def cursor_home(self, r=1, c=1):
        self.cur_r, self.cur_c = r, c
        self._fix_cursor()

    cursor_force_position = cursor_home

    def cursor_back(self, count=1):
        self.cur_c -= count
        self._fix_cursor()

    def cursor_forward(self, count=1):
        self.cur_c += count
        self._fix_cursor()

    def cursor_up(self, count=1):
        self.cur_r -= count
        self._fix_cursor()

    def cursor_down(self, count=1):
        self.cur_r += count
        self._fix_cursor()

    def cursor_up_reverse(self):
        if self.cur_r > 1:
            self.cur_r -= 1
        else:
            # at the top the display scrolls; the direction is not documented
            self._mask_rows(min(self.top, self.bot), max(self.top, self.bot))

    def cursor_save(self):
        self.sav_r, self.sav_c = self.cur_r, self.cur_c

    cursor_save_attrs = cursor_save

    def cursor_unsave(self):
        self.cursor_home(self.sav_r, self.sav_c)

    cursor_restore_attrs = cursor_unsave

    def cr(self):
        self.cur_c = 1

    def lf(self):
        if self.cur_r < self.rows:
            self.cur_r += 1
        else:
            self.scroll_up()
            self.erase_line()

    def crlf(self):
        self.cr()
        self.lf()

    newline = crlf

    # ---- scrolling
    def _mask_rows(self, a, b):
        for r in range(clamp(a, 1, self.rows), clamp(b, 1, self.rows) + 1):
            self.g[r - 1] = [None] * self.cols

    def scroll_screen(self):
        self.top, self.bot = 1, self.rows

    def scroll_screen_rows(self, rs, re):
        self.top = clamp(rs, 1, self.rows)
        self.bot = clamp(re, 1, self.rows)

    def scroll_up(self):
        s, e = self.top, self.bot
        if s > e:
            # a region that ends above its start contains no row: nothing is inside it, and cells outside the
            # region are never touched by scrolling
            return
        for r in range(s, e):
            self.g[r - 1] = list(self.g[r])
        self.g[e - 1] = [None] * self.cols       # vacated line: not documented

    def scroll_down(self):
        s, e = self.top, self.bot
        if s > e:
            return
        for r in range(e, s, -1):
            self.g[r - 1] = list(self.g[r - 2])
        self.g[s - 1] = [None] * self.cols

    # ---- erasing
    def erase_end_of_line(self):
        self.fill_region(self.cur_r, self.cur_c, self.cur_r, self.cols)

    def erase_start_of_line(self):
        self.fill_region(self.cur_r, 1, self.cur_r, self.cur_c)

    def erase_line(self):
        self.fill_region(self.cur_r, 1, self.cur_r, self.cols)

    def erase_down(self):
        # "from the current line down": whether the part of the current line
        # left of the cursor is erased is not determined
        for c in range(1, self.cur_c):
            self.g[self.cur_r - 1][c - 1] = None
        self.erase_end_of_line()
        if self.cur_r < self.rows:
            self.fill_region(self.cur_r + 1, 1, self.rows, self.cols)

    def erase_up(self):
        for c in range(self.cur_c + 1, self.cols + 1):
            self.g[self.cur_r - 1][c - 1] = None
        self.erase_start_of_line()
        if self.cur_r > 1:
            self.fill_region(1, 1, self.cur_r - 1, self.cols)

    def erase_screen(self):
        self.fill()

    def set_tab(self):
        pass

    clear_tab = clear_all_tabs = set_tab

    # ---- reading
    def get_abs(self, r, c):
        r, c = self._rc(r, c)
        return self.g[r - 1][c - 1]

    def get(self):
        return self.get_abs(self.cur_r, self.cur_c)

    def get_region(self, rs, cs, re, ce):
        rs, cs, re, ce = self._box(rs, cs, re, ce)
        return [self.g[r - 1][cs - 1:ce] for r in range(rs, re + 1)]
