"""Scripted dialogue child (H5) for run(): raw mode, executes steps from a JSON
file and appends what it printed / received (with sequence numbers) to a
report file, flushing after every step.

steps: ["print", hex] | ["readline"] | ["pause", secs] | ["exit", code] | ["killself", signo] | ["noecho"]
"""
import json
import os
import sys
import time
import tty

script = json.load(open(sys.argv[1]))
rep = open(sys.argv[2], 'a', buffering=1)
if os.isatty(0):
    tty.setraw(0)
seq = 0


def note(kind, data):
    global seq
    rep.write(json.dumps([seq, kind, data]) + '\n')
    rep.flush()
    seq += 1


note('start', os.getpid())
for st in script:
    if st[0] == 'print':
        data = bytes.fromhex(st[1])
        n = 0
        while n < len(data):
            n += os.write(1, data[n:n + 65536])
        note('printed', st[1])
    elif st[0] == 'readline':
        buf = b''
        while not buf.endswith(b'\n'):
            d = os.read(0, 1)
            if not d:
                break
            buf += d
        note('received', buf.hex())
    elif st[0] == 'pause':
        note('pause', st[1])
        time.sleep(st[1])
    elif st[0] == 'exit':
        note('exit', st[1])
        os._exit(st[1])
    elif st[0] == 'killself':
        # the child ends by a signal: it has no exit code of its own
        import signal
        note('killself', st[1])
        signal.signal(st[1], signal.SIG_DFL) if st[1] != signal.SIGKILL else None
        os.kill(os.getpid(), st[1])
        time.sleep(30)
note('end', 0)
os._exit(0)
