"""Launch probe (H5): reports how it was started, as JSON between markers."""
import fcntl
import json
import os
import signal
import struct
import sys
import termios

info = {'argv': [a.encode('utf-8', 'surrogateescape').hex() for a in sys.argv[1:]],
        'cwd': os.getcwd()}
with open('/proc/self/environ', 'rb') as f:
    env = f.read().split(b'\0')
info['env'] = sorted(e.hex() for e in env if e)
try:
    s = fcntl.ioctl(0, termios.TIOCGWINSZ, struct.pack('HHHH', 0, 0, 0, 0))
    info['winsize'] = list(struct.unpack('HHHH', s)[:2])
    info['echo'] = bool(termios.tcgetattr(0)[3] & termios.ECHO)
    info['tty'] = True
except Exception:
    info['tty'] = False
info['sighup_ignored'] = signal.getsignal(signal.SIGHUP) == signal.SIG_IGN
sys.stdout.write('<<<PROBE' + json.dumps(info) + 'PROBE>>>')
sys.stdout.flush()
