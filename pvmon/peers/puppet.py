"""Command-driven peer (H4/H5).  Run as the pty child, the piped subprocess or
a plain process.  Puts its tty (if any) in raw mode, then obeys commands
arriving on a control FIFO and acknowledges each on an ack FIFO.

argv: ctl_fifo ack_fifo [options...]
  options: noraw      keep the tty mode as found
           ignhup     ignore SIGHUP and SIGINT
           ignhuponly ignore SIGHUP only (SIGINT still terminates)
           ignterm    ignore SIGTERM too
           ready      write b'READY' to stdout once set up

commands (one per line):
  W <hex>     write bytes to fd 1                 -> ack 'w <n>'
  C           close fds 0,1,2                      -> ack 'c'
  X <n>       os._exit(n)                          (no ack)
  K <sig>     os.kill(self, sig)                   (ack 'k' if still alive)
  D <sig> <dir>  like K, but first allows a core file (up to 64 MB, written into <dir>) and changes to <dir>: a core-dumping signal then sets the
              'core dumped' bit of the wait status
  R           report bytes read from fd 0 so far   -> ack 'r <hex>'
  N           number of bytes read so far          -> ack 'n <count> <eof>'
  E <0|1>     set tty ECHO flag                    -> ack 'e'
  T           report tty/launch facts as JSON      -> ack 't <json>'
  Z <secs>    sleep                                -> ack 'z'
  P           ping                                 -> ack 'p'
  F <hex> <secs>  write numbered lines ('%07d\\n') to fd 1 without pause until one of the bytes <hex> has been read from
              fd 0 or <secs> have passed                      -> ack 'f <lines> <stopped 0|1>'
  H <secs>    fork a grandchild that ignores SIGHUP, keeps this process's terminal open and sleeps -> ack 'h <pid>'
"""
import json
import os
import select
import signal
import sys
import termios
import time
import tty


def main():
    ctl_path, ack_path = sys.argv[1], sys.argv[2]
    opts = set(sys.argv[3:])
    if 'ignhup' in opts:
        signal.signal(signal.SIGHUP, signal.SIG_IGN)
        signal.signal(signal.SIGINT, signal.SIG_IGN)
    if 'ignhuponly' in opts:
        signal.signal(signal.SIGHUP, signal.SIG_IGN)
        signal.signal(signal.SIGINT, signal.SIG_DFL)
    if 'ignterm' in opts:
        signal.signal(signal.SIGTERM, signal.SIG_IGN)
    israw = False
    if os.isatty(0) and 'noraw' not in opts:
        tty.setraw(0)
        israw = True
    ctl = os.open(ctl_path, os.O_RDWR)
    ack = os.open(ack_path, os.O_RDWR)

    def send(msg):
        os.write(ack, (msg + '\n').encode('ascii'))

    got = bytearray()
    eof = [False]
    stdin_open = [True]
    send('ready %d' % os.getpid())
    if 'ready' in opts:
        os.write(1, b'READY')
    buf = b''
    while True:
        rl = [ctl] + ([0] if stdin_open[0] and not eof[0] else [])
        try:
            r, _, _ = select.select(rl, [], [])
        except InterruptedError:
            continue
        if 0 in r:
            try:
                d = os.read(0, 65536)
            except OSError:
                d = b''
            if not d:
                eof[0] = True
            else:
                got.extend(d)
        if ctl not in r:
            continue
        buf += os.read(ctl, 65536)
        while b'\n' in buf:
            line, buf = buf.split(b'\n', 1)
            line = line.decode('ascii').strip()
            if not line:
                continue
            c, arg = line[0], line[1:].strip()
            if c == 'W':
                data = bytes.fromhex(arg)
                n = 0
                while n < len(data):
                    n += os.write(1, data[n:])
                send('w %d' % n)
            elif c == 'C':
                for fd in (0, 1, 2):
                    try:
                        os.close(fd)
                    except OSError:
                        pass
                stdin_open[0] = False
                send('c')
            elif c == 'X':
                os._exit(int(arg))
            elif c == 'H':
                hp = os.fork()
                if hp == 0:
                    try:
                        signal.signal(signal.SIGHUP, signal.SIG_IGN)
                        os.close(ctl)
                        os.close(ack)
                        time.sleep(float(arg))
                    finally:
                        os._exit(0)
                send('h %d' % hp)
            elif c == 'K':
                try:
                    # Python starts with SIGPIPE/SIGXFSZ ignored
                    signal.signal(int(arg), signal.SIG_DFL)
                except (OSError, ValueError):
                    pass
                os.kill(os.getpid(), int(arg))
                send('k')
            elif c == 'D':
                a = arg.split()
                try:
                    import resource
                    hard = resource.getrlimit(resource.RLIMIT_CORE)[1]
                    # (a truncated dump does not count as one: the limit must hold the whole image, a few megabytes)
                    want = (64 << 20) if hard == resource.RLIM_INFINITY else min(64 << 20, hard)
                    resource.setrlimit(resource.RLIMIT_CORE, (want, hard))
                    os.chdir(a[1])
                except Exception:
                    pass
                try:
                    signal.signal(int(a[0]), signal.SIG_DFL)
                except (OSError, ValueError):
                    pass
                os.kill(os.getpid(), int(a[0]))
                send('k')
            elif c == 'R':
                # drain what is readable right now first
                while stdin_open[0] and not eof[0]:
                    rr, _, _ = select.select([0], [], [], 0)
                    if not rr:
                        break
                    try:
                        d = os.read(0, 65536)
                    except OSError:
                        d = b''
                    if not d:
                        eof[0] = True
                    else:
                        got.extend(d)
                send('r ' + bytes(got).hex())
            elif c == 'N':
                while stdin_open[0] and not eof[0]:
                    rr, _, _ = select.select([0], [], [], 0)
                    if not rr:
                        break
                    try:
                        d = os.read(0, 65536)
                    except OSError:
                        d = b''
                    if not d:
                        eof[0] = True
                    else:
                        got.extend(d)
                send('n %d %d' % (len(got), 1 if eof[0] else 0))
            elif c == 'E':
                a = termios.tcgetattr(0)
                if arg == '1':
                    a[3] |= termios.ECHO
                else:
                    a[3] &= ~termios.ECHO
                termios.tcsetattr(0, termios.TCSANOW, a)
                send('e')
            elif c == 'T':
                info = {'argv': sys.argv, 'cwd': os.getcwd(), 'raw': israw,
                        'isatty': os.isatty(0)}
                send('t ' + json.dumps(info))
            elif c == 'Z':
                time.sleep(float(arg))
                send('z')
            elif c == 'P':
                send('p')
            elif c == 'F':
                a = arg.split()
                stop, limit = bytes.fromhex(a[0]), float(a[1])
                t0 = time.time()
                k = stopped = 0
                while time.time() - t0 < limit and not stopped and not eof[0]:
                    line = b'%07d\n' % k
                    n = 0
                    while n < len(line):
                        n += os.write(1, line[n:])
                    k += 1
                    rr, _, _ = select.select([0], [], [], 0)
                    if rr:
                        try:
                            d = os.read(0, 65536)
                        except OSError:
                            d = b''
                        if not d:
                            eof[0] = True
                        else:
                            got.extend(d)
                            if any(b in stop for b in d):
                                stopped = 1
                send('f %d %d' % (k, stopped))


if __name__ == '__main__':
    main()
