"""Scripted fake ssh client for pxssh (C17).

argv: script.json transcript.jsonl [ssh options and server appended by pxssh]
Records every output, every input line and every state change with sequence
numbers (flushed after each entry).

steps:
  ["hostkey"]              ask the host-key question, read the answer (yes continues, anything else exits)
  ["password", ok]         password prompt (echo off), read a line; ok: accept / else print "Permission denied, please try again."
  ["passphrase", ok]       passphrase prompt (echo off)
  ["denied"]               print "Permission denied (publickey,password)." and exit
  ["terminal"]             "Terminal type? " and read a line
  ["banner", text]         print text
  ["closed"]               print "Connection closed by remote host" and exit
  ["silence", secs]        print nothing for secs
  ["mute", secs]           echo off and print nothing for secs
  ["exit", code]
  ["replies", prompt, [r1, r2, ...]]   print prompt, then answer each line received with the next reply (a shell whose
                           prompt is decorated once by a mail notice, a menu program whose answers change)
  ["shell", flavour, prompt]   interactive shell state (commands: echo text | rep N word | exit; prompt setters) (sh | csh | zsh | weird = accepts no prompt-setting command) until EOF/exit
"""
import json
import os
import sys
import termios
import time

script = json.load(open(sys.argv[1]))
tr = open(sys.argv[2], 'a', buffering=1)
seq = [0]


def note(kind, data):
    tr.write(json.dumps([seq[0], kind, data]) + '\n')
    tr.flush()
    seq[0] += 1


def out(text):
    note('out', text)
    sys.stdout.write(text)
    sys.stdout.flush()


def echo(on):
    try:
        a = termios.tcgetattr(0)
        if on:
            a[3] |= termios.ECHO
        else:
            a[3] &= ~termios.ECHO
        termios.tcsetattr(0, termios.TCSADRAIN, a)
    except termios.error:
        pass


def readline(kind='in'):
    line = sys.stdin.readline()
    if line == '':
        note('eof', '')
        sys.exit(0)
    note(kind, line.rstrip('\n'))
    return line.rstrip('\n')


note('argv', sys.argv[3:])
for st in script:
    k = st[0]
    note('state', k)
    if k == 'hostkey':
        out("The authenticity of host 'h (1.2.3.4)' can't be established.\nRSA key fingerprint is aa:bb.\n"
            "Are you sure you want to continue connecting (yes/no)? ")
        if readline() != 'yes':
            out('Host key verification failed.\n')
            sys.exit(255)
        out("Warning: Permanently added 'h' (RSA) to the list of known hosts.\n")
    elif k in ('password', 'passphrase'):
        echo(False)
        out("user@h's password: " if k == 'password' else "Enter passphrase for key '/home/u/.ssh/id_rsa': ")
        readline('secret')
        echo(True)
        out('\n')
        if st[1] is False:
            out('Permission denied, please try again.\n')
        # (st[1] == 'quiet': refused without a word - the next step usually asks again)
    elif k == 'denied':
        out('Permission denied (publickey,password).\n')
        sys.exit(255)
    elif k == 'terminal':
        out('Terminal type? ')
        readline()
    elif k == 'banner':
        out(st[1])
    elif k == 'closed':
        out('Connection closed by remote host\n')
        sys.exit(255)
    elif k == 'silence':
        time.sleep(st[1])
    elif k == 'mute':
        # no output at all, not even the tty echo of what is typed
        echo(False)
        note('muted', '')
        time.sleep(st[1])
        echo(True)
    elif k == 'exit':
        sys.exit(st[1])
    elif k == 'replies':
        out(st[1])
        for r in st[2]:
            readline('cmd')
            out(r)
    elif k == 'shell':
        flavour, prompt = st[1], st[2]
        note('shell-entered', flavour)
        while True:
            out(prompt)
            line = readline('cmd')
            if line == 'exit':
                out('logout\n')
                sys.exit(0)
            if line == '':
                continue
            if line == 'unset PROMPT_COMMAND':
                if flavour == 'csh':
                    out('unset: No match.\n') if False else None
                continue
            if line == "PS1='[PEXPECT]\\$ '":
                if flavour == 'sh':
                    prompt = '[PEXPECT]$ '
                    note('prompt-set', 'sh')
                elif flavour == 'csh':
                    out("PS1=[PEXPECT]\\$ : Command not found.\n")
                else:
                    out('')       # zsh: accepted but themes overwrite it again: prompt unchanged
                continue
            if line == "set prompt='[PEXPECT]\\$ '":
                if flavour == 'csh':
                    prompt = '[PEXPECT]$ '
                    note('prompt-set', 'csh')
                else:
                    pass          # sh/zsh: "set" just sets positional parameters
                continue
            if line == 'prompt restore;':
                continue
            if line == "PS1='[PEXPECT]%(!.#.$) '":
                if flavour == 'zsh':
                    prompt = '[PEXPECT]$ '
                    note('prompt-set', 'zsh')
                elif flavour == 'sh':
                    prompt = '[PEXPECT]%(!.#.$) '
                continue
            if line.startswith('echo '):
                out(line[5:] + '\n')
                continue
            if line.startswith('rep '):
                # rep N word: prints word-word-...-word (N times): output that differs from the tty echo of the command
                _, n, w = line.split()
                out('-'.join([w] * int(n)) + '\n')
                continue
            out('sh: %s: command not found\n' % line.split()[0])
note('end', '')
