"""Per-case wall-clock watchdog (SIGALRM, main thread).  Its firing is
INCONCLUSIVE unless the check says non-termination is itself the refuting
event."""
import signal
from contextlib import contextmanager


class CaseTimeout(BaseException):
    pass


@contextmanager
def watchdog(seconds):
    def onalarm(sig, frm):
        raise CaseTimeout('case exceeded %.0f s' % seconds)
    old = signal.signal(signal.SIGALRM, onalarm)
    signal.setitimer(signal.ITIMER_REAL, seconds)
    try:
        yield
    finally:
        signal.setitimer(signal.ITIMER_REAL, 0)
        signal.signal(signal.SIGALRM, old)
