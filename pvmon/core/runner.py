"""Check runner: plans shards, runs each in its own subprocess (subprocess.run
with a timeout - never a Pool), merges what the monitors observed, classifies
violations against known_findings.json, writes the evidence file and decides
the three-valued verdict (0 held / 1 violation / 2 inconclusive)."""
import concurrent.futures
import hashlib
import importlib
import json
import os
import pickle
import shutil
import subprocess
import sys
import tempfile
import time
import traceback

from .. import REPO, VERIF, repo_check
from .acc import Acc, jdumps, jloads

EVIDENCE_DIR = os.environ.get('PVMON_EVIDENCE_DIR') or os.path.join(VERIF, 'evidence')
REPLAY_DIR = os.environ.get('PVMON_REPLAY_DIR') or os.path.join(VERIF, 'replays')
KNOWN = os.path.join(VERIF, 'known_findings.json')


def load_check(pid):
    return importlib.import_module('pvmon.checks.%s' % pid.lower())


def known_findings(pid):
    try:
        with open(KNOWN) as f:
            data = json.load(f)
    except FileNotFoundError:
        return {}
    out = {}
    for e in data.get('findings', []):
        if e.get('property') == pid and e.get('status') == 'known':
            out[e['mechanism']] = e
    return out


def child_env():
    env = dict(os.environ)
    env['PYTHONDONTWRITEBYTECODE'] = '1'
    env.setdefault('PYTHONHASHSEED', '0')
    env['PVMON_REPO'] = REPO
    env['PYTHONPATH'] = VERIF + os.pathsep + env.get('PYTHONPATH', '')
    env.pop('PEXPECT_VERIF', None)
    return env


def run_one_shard(pid, spec, workdir, idx, timeout):
    sp = os.path.join(workdir, 'spec%d.pkl' % idx)
    op = os.path.join(workdir, 'out%d.pkl' % idx)
    with open(sp, 'wb') as f:
        pickle.dump(spec, f)
    cmd = [sys.executable, '-m', 'pvmon', 'shard', pid, sp, op]
    t0 = time.time()
    try:
        p = subprocess.run(cmd, cwd=VERIF, env=child_env(), timeout=timeout,
                           stdout=subprocess.PIPE, stderr=subprocess.STDOUT,
                           stdin=subprocess.DEVNULL, start_new_session=True)
        rc, out = p.returncode, p.stdout.decode('utf-8', 'replace')
    except subprocess.TimeoutExpired as e:
        rc, out = 'watchdog', (e.stdout or b'').decode('utf-8', 'replace')
    res = None
    if os.path.exists(op):
        try:
            with open(op, 'rb') as f:
                res = pickle.load(f)
        except Exception:
            res = None
    return idx, rc, out, res, time.time() - t0


def die_with_parent():
    """Shards run in their own session; make sure an orphan does not survive a killed runner."""
    try:
        import ctypes
        import signal
        ctypes.CDLL('libc.so.6', use_errno=True).prctl(1, signal.SIGKILL)      # PR_SET_PDEATHSIG
        if os.getppid() == 1:
            os._exit(0)
    except Exception:
        pass


def default_signal_dispositions():
    """A runner started as a background job of a shell without job control (`cmd &` in a script, nohup, some CI
    harnesses) inherits SIGINT / SIGQUIT / SIGHUP as *ignored*, and so would every child the checks start through
    pexpect: a python REPL that never sees KeyboardInterrupt, a child that survives terminate()'s SIGINT.  The
    subject's behaviour is defined for children with default dispositions."""
    import signal
    for sig in (signal.SIGINT, signal.SIGQUIT, signal.SIGHUP, signal.SIGTERM, signal.SIGCONT, signal.SIGUSR1, signal.SIGUSR2):
        try:
            if signal.getsignal(sig) == signal.SIG_IGN:
                signal.signal(sig, signal.SIG_DFL)
        except (OSError, ValueError):
            pass


def shard_main(pid, specpath, outpath):
    """Entry point of `python -m pvmon shard`."""
    die_with_parent()
    default_signal_dispositions()
    mod = load_check(pid)
    with open(specpath, 'rb') as f:
        spec = pickle.load(f)
    acc = Acc()
    why = repo_check()
    if why:
        acc.inconc(why)
    else:
        try:
            mod.run_shard(spec, acc)
        except Exception:
            acc.inconc('shard crashed: ' + traceback.format_exc()[-1500:])
            acc.count('shard_crashes')
    tmp = outpath + '.tmp'
    with open(tmp, 'wb') as f:
        pickle.dump(acc.dump(), f)
    os.replace(tmp, outpath)
    return 0


def write_replay(pid, v, seed):
    os.makedirs(REPLAY_DIR, exist_ok=True)
    body = {'property': pid, 'mechanism': v['mechanism'],
            'detail': v['detail'], 'case': v['case'], 'seed': seed}
    txt = jdumps(body, indent=1)
    dg = hashlib.sha1(txt.encode('utf-8', 'surrogatepass')).hexdigest()[:12]
    path = os.path.join(REPLAY_DIR, '%s-%s.json' % (pid, dg))
    with open(path, 'w') as f:
        f.write(txt)
    return path


def check_main(pid, tier, seed, replay=None):
    pid = pid.upper()
    mod = load_check(pid)
    t0 = time.time()
    acc = Acc()
    why = repo_check()
    if why:
        print('INCONCLUSIVE property=%s reason=%s' % (pid, why))
        return 2
    workdir = tempfile.mkdtemp(prefix='pvmon-%s-' % pid.lower())
    shard_fail = []
    try:
        if replay:
            with open(replay) as f:
                body = jloads(f.read())
            specs = [{'replay': body['case'], 'tier': tier, 'seed': seed}]
        else:
            specs = mod.plan(tier, seed)
        par = min(getattr(mod, 'PAR', 16), len(specs)) or 1
        timeout = getattr(mod, 'SHARD_TIMEOUT', {'quick': 300, 'thorough': 1800})[tier]
        with concurrent.futures.ThreadPoolExecutor(par) as ex:
            futs = [ex.submit(run_one_shard, pid, s, workdir, i, timeout)
                    for i, s in enumerate(specs)]
            for fu in concurrent.futures.as_completed(futs):
                idx, rc, out, res, wall = fu.result()
                if res is not None:
                    acc.merge(res)
                if rc != 0 or res is None:
                    shard_fail.append((idx, rc, out[-2000:]))
                    acc.inconc('shard %d ended with %r: %s' % (idx, rc, out[-400:]))
    finally:
        shutil.rmtree(workdir, ignore_errors=True)

    # required monitors must have been evaluated
    missing = [c for c in getattr(mod, 'REQUIRED', []) if not acc.counters.get(c)]
    if replay:
        missing = []

    known = known_findings(pid)
    new, listed = [], {}
    for v in acc.violations:
        if v['mechanism'] in known:
            listed.setdefault(v['mechanism'], v)
        else:
            new.append(v)
    for mech in sorted(listed):
        p = write_replay(pid, listed[mech], seed)
        print('KNOWN-FINDING: property=%s %s (%s; %d witnesses this run; replay=%s)' % (
            pid, known[mech]['what'], mech, acc.viol_counts.get(mech, 0), p))
    new_paths = []
    for v in new:
        p = write_replay(pid, v, seed)
        new_paths.append(p)
        print('VIOLATION property=%s replay=%s' % (pid, p))
        print('  mechanism=%s (%d witnesses) %s' % (
            v['mechanism'], acc.viol_counts.get(v['mechanism'], 0), v['detail'][:600]))

    n_new = sum(n for m, n in acc.viol_counts.items() if m not in known)
    wall = time.time() - t0
    if not replay:
        write_evidence(mod, pid, tier, seed, acc, wall, n_new, known, missing)

    if new:
        return 1
    crashes = acc.counters.get('shard_crashes', 0)
    too_many = acc.counters.get('inconclusive_events', 0) * 10 > max(acc.evaluations, 1)
    if missing or (acc.evaluations == 0) or shard_fail or crashes or too_many:
        reason = []
        if missing:
            reason.append('monitors never evaluated: ' + ','.join(missing))
        if acc.evaluations == 0:
            reason.append('no case executed')
        if crashes:
            reason.append('%d shard(s) crashed: %s' % (crashes, ' | '.join(acc.inconclusive[:2])[-600:]))
        if too_many:
            reason.append('%d inconclusive cases of %d: %s' % (
                acc.counters.get('inconclusive_events', 0), acc.evaluations, ' | '.join(acc.inconclusive[:3])[-400:]))
        for idx, rc, out in shard_fail[:3]:
            reason.append('shard %d -> %r' % (idx, rc))
        print('INCONCLUSIVE property=%s reason=%s' % (pid, '; '.join(reason)))
        for idx, rc, out in shard_fail[:3]:
            print('--- shard %d output tail ---\n%s' % (idx, out))
        return 2
    print('HELD property=%s tier=%s seed=%d evaluations=%d distinct_nontrivial=%d wall=%.1fs' % (
        pid, tier, seed, acc.evaluations,
        len(acc.sigs) + acc.counters.get('_distinct_by_construction', 0), wall))
    return 0


def write_evidence(mod, pid, tier, seed, acc, wall, n_new, known, missing):
    os.makedirs(EVIDENCE_DIR, exist_ok=True)
    cov = {
        'evaluations': acc.evaluations,
        'distinct_nontrivial': len(acc.sigs) + acc.counters.get('_distinct_by_construction', 0),
        'rule': mod.RULE,
        'samples': acc.samples[:Acc.MAX_SAMPLES],
        'observed': dict(sorted(acc.counters.items())),
        'distinct': {k: len(v) for k, v in sorted(acc.sets.items())},
        'known_finding_witnesses': {m: n for m, n in acc.viol_counts.items()
                                    if m in known},
        'monitors_never_evaluated': missing,
        'inconclusive_notes': acc.inconclusive[:10],
        'repo': REPO,
    }
    small = {k: sorted(v)[:40] for k, v in acc.sets.items()
             if k.startswith('list:')}
    if small:
        cov['values'] = small
    extra = getattr(mod, 'coverage_extra', None)
    if extra:
        cov.update(extra(acc, tier))
    ev = {
        'property_id': pid, 'tier': tier, 'seed': seed, 'level': mod.LEVEL,
        'coverage': cov, 'assumptions': list(getattr(mod, 'ASSUMPTIONS', [])),
        'wall_s': round(wall, 2), 'violations': n_new,
    }
    path = os.path.join(EVIDENCE_DIR, '%s.json' % pid)
    tmp = path + '.tmp'
    with open(tmp, 'w') as f:
        f.write(jdumps(ev, indent=1))
        f.write('\n')
    os.replace(tmp, path)


def split_range(n, parts):
    parts = max(1, min(parts, n))
    step, rem = divmod(n, parts)
    out, a = [], 0
    for i in range(parts):
        b = a + step + (1 if i < rem else 0)
        out.append((a, b))
        a = b
    return out
