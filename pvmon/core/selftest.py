"""Environment self-test run by MANIFEST.setup_cmd: pty, /proc, FIFOs, bash."""
import os
import shutil
import sys


def selftest():
    from .. import repo_check
    why = repo_check()
    if why:
        print('selftest: ' + why)
        return 1
    problems = []
    try:
        import pty
        m, s = pty.openpty()
        os.close(m)
        os.close(s)
    except Exception as e:
        problems.append('pty: %r' % e)
    if not os.path.exists('/proc/self/stat'):
        problems.append('/proc missing')
    if not shutil.which('bash'):
        problems.append('bash missing')
    try:
        from ..workloads.transports import Link
        L = Link('pty', timeout=10)
        L.peer_write(b'ok')
        L.child.expect(b'ok')
        L.peer_close()
        L.cleanup()
    except Exception as e:
        problems.append('puppet peer: %r' % e)
    if problems:
        print('selftest problems: ' + '; '.join(problems))
        return 1
    print('selftest ok (python %s, repo %s)' % (sys.version.split()[0], os.environ.get('PVMON_REPO', '/repo')))
    return 0
