"""Accumulator of what a shard observed (counters, distinct signatures, samples,
violations).  Merged by the runner across shards."""
import hashlib
import json


def jdefault(o):
    if isinstance(o, bytes):
        return {'__bytes__': o.decode('latin-1')}
    if isinstance(o, (set, frozenset)):
        return sorted(o, key=repr)
    if isinstance(o, tuple):
        return list(o)
    if isinstance(o, type):
        return {'__class__': o.__name__}
    return repr(o)


def jdumps(o, **kw):
    return json.dumps(o, default=jdefault, sort_keys=True, **kw)


def jhook(d):
    if '__bytes__' in d and len(d) == 1:
        return d['__bytes__'].encode('latin-1')
    return d


def jloads(s):
    return json.loads(s, object_hook=jhook)


def sig_of(*parts):
    h = hashlib.blake2b(jdumps(parts).encode('utf-8', 'surrogatepass'),
                        digest_size=8).digest()
    return int.from_bytes(h, 'big')


class Acc(object):
    MAX_SAMPLES = 6
    MAX_WITNESS_PER_MECH = 3

    def __init__(self):
        self.evaluations = 0
        self.sigs = set()
        self.counters = {}
        self.sets = {}
        self.violations = []
        self.viol_counts = {}
        self.samples = []
        self.inconclusive = []

    # -- counting
    def case(self, n=1):
        self.evaluations += n

    def nontrivial(self, *parts):
        self.sigs.add(sig_of(*parts))

    def count(self, name, n=1):
        self.counters[name] = self.counters.get(name, 0) + n

    def seen(self, name, value):
        s = self.sets.get(name)
        if s is None:
            s = self.sets[name] = set()
        if len(s) < 200000:
            s.add(value)

    def sample(self, obj):
        if len(self.samples) < self.MAX_SAMPLES:
            self.samples.append(obj)

    # -- verdicts
    def violation(self, mechanism, detail, case):
        """mechanism: short stable key computed by the monitor's classifier
        (never a hash or a random value); detail: human-readable; case:
        JSON-able replay input."""
        n = self.viol_counts.get(mechanism, 0)
        self.viol_counts[mechanism] = n + 1
        if n < self.MAX_WITNESS_PER_MECH:
            self.violations.append(
                {'mechanism': mechanism, 'detail': detail, 'case': case})

    def too_many(self, limit=25):
        """True once a shard has collected plenty of witnesses: on a broken tree the remaining cases would
        mostly add waiting time (timeouts inside the subject), not information."""
        if sum(self.viol_counts.values()) >= limit:
            self.counters['stopped_early_after_many_violations'] = 1
            return True
        return False

    def inconc(self, reason):
        if len(self.inconclusive) < 50:
            self.inconclusive.append(reason)
        self.count('inconclusive_events')

    # -- (de)serialisation between shard and runner
    def dump(self):
        return {
            'evaluations': self.evaluations, 'sigs': self.sigs,
            'counters': self.counters, 'sets': self.sets,
            'violations': self.violations, 'viol_counts': self.viol_counts,
            'samples': self.samples, 'inconclusive': self.inconclusive,
        }

    def merge(self, d):
        self.evaluations += d['evaluations']
        self.sigs |= d['sigs']
        for k, v in d['counters'].items():
            self.counters[k] = self.counters.get(k, 0) + v
        for k, v in d['sets'].items():
            self.sets.setdefault(k, set()).update(v)
        for m, n in d['viol_counts'].items():
            self.viol_counts[m] = self.viol_counts.get(m, 0) + n
        for v in d['violations']:
            have = sum(1 for x in self.violations
                       if x['mechanism'] == v['mechanism'])
            if have < self.MAX_WITNESS_PER_MECH:
                self.violations.append(v)
        for s in d['samples']:
            if len(self.samples) < self.MAX_SAMPLES:
                self.samples.append(s)
        for r in d['inconclusive']:
            if len(self.inconclusive) < 50:
                self.inconclusive.append(r)


def confirmed(case, fn, acc, retries=2):
    """Flake discipline for checks whose subject contains real wall-clock
    limits: run fn(case, scratch_acc); a violation is reported only if it
    reproduces (same mechanism) in `retries` further serial runs, otherwise it
    is counted as flaky_unconfirmed."""
    first = Acc()
    fn(case, first)
    if first.violations:
        mech = first.violations[0]['mechanism']
        ok = True
        for _ in range(retries):
            again = Acc()
            fn(case, again)
            if not any(v['mechanism'] == mech for v in again.violations):
                ok = False
                break
        if not ok:
            first.violations = []
            first.viol_counts = {}
            first.count('flaky_unconfirmed')
            first.seen('list:flaky_unconfirmed_mechanisms', mech)
    acc.merge(first.dump())


def second_attempt(acc, case, rerun, seconds, what):
    """A case ran into its watchdog.  Everything driven by the checks is bounded (timeouts of a few seconds inside
    the subject, peers that answer within seconds), so the case is run once more, serially: a second hang is reported
    as a violation (the replay shows where it sticks); a single one is load and only counted."""
    from .watchdog import watchdog, CaseTimeout
    try:
        with watchdog(seconds):
            rerun()
    except CaseTimeout as e:
        acc.violation('case-does-not-finish', '%s; and again on a second, serial attempt (%s)' % (what, e), case)
        return True
    except Exception as e:
        acc.inconc('watchdog (%s), then %s on the second attempt: %s' % (what, type(e).__name__, e))
        return False
    acc.count('watchdog_once_then_finished')
    return False
