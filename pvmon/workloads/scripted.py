"""H1: scripted transport.  ScriptedSpawn(SpawnBase) overrides only
read_nonblocking and serves a script of events, so the whole matching engine
runs unmodified with exactly the chunking the generator chose.  The same
script is run through the reference model (models.expect_ref) with a cursor of
its own.  Time is virtual (hooks.vclock).

case = {
  'enc': None | 'utf-8',           bytes / unicode mode
  'isws': None | int,              instance searchwindowsize
  'maxread': int,
  'script': [['d', text, dt?], ['t'], ['e', dt?]],
  'ops': [ {'op': ..., 'pats': [...], 'T': -1|None|num, 'W': -1|None|int, ...} ]
}
pattern entries: {'re': src} | {'re': src, 'c': flags} (pre-compiled) |
{'x': literal} | 'EOF' | 'TIMEOUT'.  All text is stored as str; in bytes mode
it is encoded with latin-1 when the case is executed.
"""
import re

import pexpect
import pexpect.expect
from pexpect.exceptions import EOF, TIMEOUT
from pexpect.expect import searcher_re, searcher_string
from pexpect.spawnbase import SpawnBase

from ..hooks.vclock import VClock
from ..core.watchdog import CaseTimeout
from ..models.expect_ref import (RefEngine, Hang, DeadlineTie, EOF_M, TIMEOUT_M)

DEFAULT_TIMEOUT = 30


class WouldBlockForever(Exception):
    pass


class Cursor(object):
    """Script consumption rule shared by the scripted transport and the model
    (each owns an instance).  read(size, remaining) -> (kind, data, dt)."""

    def __init__(self, script, conv, maxread):
        self.ev = [list(e) for e in script]
        for e in self.ev:
            if e[0] == 'd':
                e[1] = conv(e[1])
                if len(e) < 3:
                    e.append(0.0)
            elif e[0] == 'e' and len(e) < 2:
                e.append(0.0)
        self.i = 0
        self.eof = False
        self.maxread = maxread
        self.consumed = 0          # number of characters handed out
        self.attempts = 0
        self.exhausted_hits = 0

    def position(self):
        return (self.i, self.consumed, self.eof)

    def read(self, remaining, size=None):
        size = size or self.maxread
        self.attempts += 1
        if self.eof:
            return ('e', None, 0.0)
        while True:
            if self.i >= len(self.ev):
                self.exhausted_hits += 1
                if remaining is None:
                    raise Hang()
                return ('t', None, max(remaining, 0.0))
            e = self.ev[self.i]
            if e[0] == 't':
                self.i += 1
                if remaining is None:
                    continue
                return ('t', None, max(remaining, 0.0))
            dt = e[2] if e[0] == 'd' else e[1]
            if remaining is not None and dt > 0 and abs(dt - remaining) < 1e-9:
                raise DeadlineTie()
            if remaining is not None and dt > remaining:
                if e[0] == 'd':
                    e[2] = dt - max(remaining, 0.0)
                else:
                    e[1] = dt - max(remaining, 0.0)
                return ('t', None, max(remaining, 0.0))
            if e[0] == 'e':
                self.eof = True
                self.i += 1
                return ('e', None, dt)
            data = e[1]
            if len(data) > size:
                e[1] = data[size:]
                e[2] = 0.0
                data = data[:size]
            else:
                self.i += 1
            self.consumed += len(data)
            return ('d', data, dt)


class ScriptedSpawn(SpawnBase):
    """The transport: everything except read_nonblocking is SpawnBase's."""

    def __init__(self, cursor, clock, **kw):
        SpawnBase.__init__(self, **kw)
        self.cursor = cursor
        self.clock = clock
        self.closed = False
        self.received = self.string_type()
        self.nreads = 0
        self.read_log = []

    def read_nonblocking(self, size=1, timeout=-1):
        if timeout == -1:
            timeout = self.timeout
        self.nreads += 1
        try:
            kind, data, dt = self.cursor.read(timeout, size)
        except Hang:
            self.read_log.append(('hang',))
            raise WouldBlockForever()
        self.clock.advance(dt)
        if kind == 't':
            self.read_log.append(('t',))
            raise TIMEOUT('Timeout exceeded (scripted).')
        if kind == 'e':
            self.flag_eof = True
            self.read_log.append(('e',))
            raise EOF('End Of File (scripted).')
        self.received = self.received + data
        self.read_log.append(('d', data))
        self._log(data, 'read')
        return data


# ---------------------------------------------------------------- conversion

def conv_for(enc):
    if enc is None:
        return lambda s: s.encode('latin-1')
    return lambda s: s


def native_pat(p, conv, ignorecase=False):
    """Pattern entry -> model form ('re', compiled)|('x', lit)|('m', marker),
    compiled natively with the documented flags."""
    if p == 'EOF':
        return ('m', EOF_M)
    if p == 'TIMEOUT':
        return ('m', TIMEOUT_M)
    if 'x' in p:
        return ('x', conv(p['x']))
    if 'c' in p:
        return ('re', re.compile(conv(p['re']), p['c']))
    fl = re.DOTALL | (re.IGNORECASE if ignorecase else 0)
    return ('re', re.compile(conv(p['re']), fl))


def api_pat(p, conv):
    """Pattern entry -> object given to the pexpect API."""
    if p == 'EOF':
        return EOF
    if p == 'TIMEOUT':
        return TIMEOUT
    if 'x' in p:
        return conv(p['x'])
    if 'c' in p:
        if p.get('o'):
            # the same source and flags, compiled in the string type the object does not use
            if isinstance(conv('a'), bytes):
                return re.compile(p['re'], p['c'])
            return re.compile(p['re'].encode('ascii'), p['c'])
        return re.compile(conv(p['re']), p['c'])
    return conv(p['re'])


# ------------------------------------------------------------------- records

class CallRec(object):
    """One engine-level call as seen at the API boundary."""
    __slots__ = ('op', 'kind', 'index', 'exc', 'before', 'after', 'match',
                 'match_index', 'buffer', 'reads', 'read_log', 'ret', 'pos',
                 't0', 't1', 'pre_pending')

    def summary(self):
        return {'op': self.op, 'kind': self.kind, 'index': self.index,
                'exc': self.exc, 'before': self.before, 'after': self.after,
                'match_index': self.match_index, 'buffer': self.buffer,
                'reads': self.reads, 'ret': self.ret}


def classify(child, ret, exc):
    if exc is None:
        if child.after is EOF:
            return 'eof'
        if child.after is TIMEOUT:
            return 'timeout'
        return 'match'
    if type(exc) is EOF:
        return 'eof'
    if type(exc) is TIMEOUT:
        return 'timeout'
    if isinstance(exc, WouldBlockForever):
        return 'hang'
    return 'error:' + type(exc).__name__


def after_repr(a):
    if a is EOF:
        return EOF_M
    if a is TIMEOUT:
        return TIMEOUT_M
    return a


# ------------------------------------------------------------------ execution

class Run(object):
    """Executes the ops of a case on the real engine and on the model, op by
    op; yields paired records to the oracles."""

    def __init__(self, case):
        self.case = case
        enc = case.get('enc')
        self.conv = conv = conv_for(enc)
        self.empty = conv('')
        maxread = case.get('maxread', 2000)
        self.clock = VClock()
        self.saved_time = pexpect.expect.time
        pexpect.expect.time = self.clock
        self.child = ScriptedSpawn(
            Cursor(case['script'], conv, maxread), self.clock,
            timeout=DEFAULT_TIMEOUT, maxread=maxread,
            searchwindowsize=case.get('isws'), encoding=enc,
            codec_errors='strict')
        if case.get('ignorecase'):
            self.child.ignorecase = True
        self.ref = RefEngine(Cursor(case['script'], conv, maxread),
                             self.empty, DEFAULT_TIMEOUT, case.get('isws'))
        self.crlf = conv('\r\n')
        # engine-level call log (filled by wrappers below)
        self.engine_calls = []
        self._wrap_engine()

    def close(self):
        pexpect.expect.time = self.saved_time

    def _weff(self, W):
        return self.case.get('isws') if W == -1 else W

    # engine-level observation: every expect_list/expect_exact/expect_loop
    def _wrap_engine(self):
        child, run = self.child, self

        def wrap(name):
            orig = getattr(SpawnBase, name)

            def w(*a, **kw):
                n0 = child.nreads
                l0 = len(child.read_log)
                pre = child.buffer
                t0 = run.clock.peek()
                ret = exc = None
                try:
                    ret = orig(child, *a, **kw)
                except CaseTimeout:
                    raise
                except BaseException as e:
                    exc = e
                rec = CallRec()
                rec.op = name
                rec.kind = classify(child, ret, exc)
                rec.index = ret
                rec.exc = type(exc).__name__ if exc is not None else None
                rec.before = child.before
                rec.after = after_repr(child.after)
                rec.match = child.match
                rec.match_index = child.match_index
                rec.buffer = child.buffer
                rec.reads = child.nreads - n0
                rec.read_log = child.read_log[l0:]
                rec.ret = ret
                rec.pos = child.cursor.position()
                rec.t0, rec.t1 = t0, run.clock.peek()
                rec.pre_pending = pre
                run.engine_calls.append(rec)
                if exc is not None:
                    raise exc
                return ret
            setattr(child, name, w)
        for n in ('expect_list', 'expect_exact', 'expect_loop'):
            wrap(n)

    # ---- one op on the real object
    def real_op(self, op):
        child, conv = self.child, self.conv
        k = op['op']
        n0 = len(self.engine_calls)
        ret = exc = None
        try:
            if k in ('expect', 'expect_exact', 'expect_list', 'loop_re', 'loop_str'):
                pats = [api_pat(p, conv) for p in op['pats']]
                T, W = op.get('T', -1), op.get('W', -1)
                if k == 'expect':
                    arg = pats[0] if op.get('single') else pats
                    ret = child.expect(arg, timeout=T, searchwindowsize=W)
                elif k == 'expect_exact':
                    arg = pats[0] if op.get('single') else pats
                    ret = child.expect_exact(arg, timeout=T, searchwindowsize=W)
                elif k == 'expect_list':
                    cpl = child.compile_pattern_list(pats)
                    # every other expect_list of a history passes ONE list object that the caller edits in place
                    # between the calls (the others pass a fresh list, whose memory - and id() - is free for reuse
                    # as soon as the call is over)
                    self.n_expect_list = getattr(self, 'n_expect_list', 0) + 1
                    if self.n_expect_list % 2 == 0 or self.case.get('reuse_cpl', len(self.case.get('ops', [])) % 2 == 0):
                        if not hasattr(self, 'shared_cpl'):
                            self.shared_cpl = []
                        self.shared_cpl[:] = cpl
                        cpl = self.shared_cpl
                    ret = child.expect_list(cpl, timeout=T, searchwindowsize=W)
                elif k == 'loop_re':
                    cpl = child.compile_pattern_list(pats)
                    ret = child.expect_loop(searcher_re(cpl), timeout=T,
                                            searchwindowsize=W)
                else:
                    ret = child.expect_loop(searcher_string(pats), timeout=T,
                                            searchwindowsize=W)
            elif k == 'read':
                ret = child.read(op.get('n', -1))
            elif k == 'readline':
                ret = child.readline()
            elif k == 'readlines':
                ret = child.readlines()
            elif k == 'iter':
                ret = list(child)
            elif k == 'setbuf':
                child.buffer = conv(op['v'])
            else:
                raise ValueError(k)
        except CaseTimeout:
            raise
        except BaseException as e:
            exc = e
        return ret, exc, self.engine_calls[n0:]

    # ---- the same op on the model: list of engine-level expected outcomes
    # plus the expected return value
    def ref_op(self, op, real_calls):
        ref, conv = self.ref, self.conv
        k = op['op']
        ic = bool(self.case.get('ignorecase'))

        def cap_for(T, j):
            # timeout 0: the number of immediate reads is not specified
            Te = DEFAULT_TIMEOUT if T == -1 else T
            if Te is not None and Te == 0 and j < len(real_calls):
                return max(1, real_calls[j].reads)
            return None

        if k in ('expect', 'expect_exact', 'expect_list', 'loop_re', 'loop_str'):
            pats = [native_pat(p, conv, ic) for p in op['pats']]
            T, W = op.get('T', -1), op.get('W', -1)
            o = ref.call(pats, T, W, cap_for(T, 0))
            rv = o.index if not o.raised else None
            self.ref_specs = [(pats, self._weff(W), T, True)]
            return [o], rv, o.raised
        self.ref_specs = []
        wd = self._weff(-1)
        if k == 'read':
            n = op.get('n', -1)
            if n == 0:
                return [], self.empty, False
            if n < 0:
                self.ref_specs = [([('m', EOF_M)], wd, -1, False)]
                o = ref.call([('m', EOF_M)])
                return [o], (o.before if not o.raised else None), o.raised
            cre = re.compile(conv('.{%d}' % n), re.DOTALL)
            self.ref_specs = [([('re', cre), ('m', EOF_M)], wd, -1, False)]
            o = ref.call([('re', cre), ('m', EOF_M)])
            if o.raised:
                return [o], None, True
            return [o], (o.after if o.index == 0 else o.before), False
        lp = [('re', re.compile(re.escape(self.crlf), re.DOTALL)), ('m', EOF_M)]
        if k == 'readline':
            self.ref_specs = [(lp, wd, -1, False)]
            o = ref.call(lp)
            if o.raised:
                return [o], None, True
            return [o], (o.before + self.crlf if o.index == 0 else o.before), False
        if k in ('readlines', 'iter'):
            outs, lines = [], []
            while True:
                self.ref_specs.append((lp, wd, -1, False))
                o = ref.call(lp)
                outs.append(o)
                if o.raised:
                    return outs, None, True
                line = o.before + self.crlf if o.index == 0 else o.before
                if not line:
                    return outs, lines, False
                lines.append(line)
        if k == 'setbuf':
            ref.pending = conv(op['v'])
            return [], None, False
        raise ValueError(k)



class Step(object):
    __slots__ = ('i', 'op', 'ret', 'exc', 'calls', 'outs', 'rv', 'raised',
                 'specs')


TIES = [0]         # histories cut short because an arrival fell on a deadline (see DeadlineTie)


def steps(case):
    """Generator of Step objects; stops after the first op whose real or model
    outcome leaves the two in different states (the oracles have seen it)."""
    run = Run(case)
    try:
        for i, op in enumerate(case['ops']):
            st = Step()
            st.i, st.op = i, op
            try:
                st.ret, st.exc, st.calls = run.real_op(op)
                st.outs, st.rv, st.raised = run.ref_op(op, st.calls)
            except DeadlineTie:
                TIES[0] += 1
                return
            if isinstance(st.exc, DeadlineTie):
                TIES[0] += 1
                return
            st.specs = list(run.ref_specs)
            yield run, st
            if st.exc is not None and not isinstance(st.exc, (EOF, TIMEOUT)):
                break
            if any(o.kind == 'hang' for o in st.outs):
                break
            if run.child.buffer != run.ref.pending and not (
                    st.calls and st.calls[-1].kind == 'timeout'):
                break
            if st.calls and st.calls[-1].kind == 'timeout' and \
                    st.calls[-1].before != run.ref.pending:
                break
            if run.child.cursor.position() != run.ref.cur.position():
                break
    finally:
        run.close()
