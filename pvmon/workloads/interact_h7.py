"""H7: outer pty that plays the user of interact().

The harness pty.fork()s a driver process whose stdin/stdout is the slave of an
outer pty.  The driver puts that tty in a distinctive non-raw mode without
output post-processing, spawns the inner raw-mode puppet, installs an `os`
proxy in pexpect.pty_spawn that logs every read/write on stdin, stdout and the
child descriptor, calls interact(), compares tcgetattr afterwards and reports
through a pipe.  The harness types on the outer master, lets the puppet write,
and reads what reaches the outer master.
"""
import errno
import io
import json
import os
import pty
import select
import signal
import sys
import termios
import time
import traceback

from .puppetctl import Puppet, PeerError, wait_state, proc_stat


def _driver(cfg, pup_argv, res_fd):
    """Runs in the forked driver process (stdin/stdout = outer pty slave)."""
    out = {'events': [], 'error': None}

    def emit(tag):
        os.write(res_fd, (tag + '\n').encode())
    try:
        import pexpect
        import pexpect.pty_spawn as ps
        sys.stdout = io.TextIOWrapper(io.FileIO(1, 'w', closefd=False), encoding='utf-8', errors='strict')
        sys.stdin = io.TextIOWrapper(io.FileIO(0, 'r', closefd=False), encoding='utf-8')
        enc = cfg.get('enc')
        child = pexpect.spawn(pup_argv[0], pup_argv[1:], encoding=enc, timeout=10, use_poll=bool(cfg.get('poll')))
        child.delaybeforesend = None
        logs = cfg.get('logs') or []
        journal = []

        class Rec(object):
            def __init__(self, name):
                self.name = name

            def write(self, x):
                journal.append(['w', self.name, type(x).__name__,
                                x.hex() if isinstance(x, (bytes, bytearray)) else x])

            def flush(self):
                journal.append(['f', self.name])
        for nm in logs:
            setattr(child, nm, Rec(nm))
        emit('SPAWNED %d' % child.pid)
        if cfg.get('pending'):
            # wait for the harness to make the inner child write PENDING-text, consume a prefix of it
            child.expect_exact('<<' if enc else b'<<')
            deadline = time.time() + 5
            want = cfg['pending']
            while len(child.buffer) < len(want) and time.time() < deadline:
                try:
                    child.expect_exact('\x01never' if enc else b'\x01never', timeout=0.05)
                except pexpect.TIMEOUT:
                    pass
            if cfg.get('pending_trim'):
                # a call that times out and, being an exact-string search, keeps only its look-back in the search
                # buffer: the pending text (what `before` shows after the TIMEOUT) is still all of it
                try:
                    child.expect_exact('\x01never' if enc else b'\x01never', timeout=0.2)
                except pexpect.TIMEOUT:
                    pass
                out['pending_before'] = (child.before if enc else child.before.decode('latin-1'))
            out['pending_seen'] = (child.buffer if enc else child.buffer.decode('latin-1'))
        if cfg.get('prior'):
            # an earlier interact() session on the same object, entered and left in the terminal mode as found;
            # the mode is changed afterwards, so the session under test starts from a different one
            m1 = termios.tcgetattr(0)
            emit('PRIOR')

            class Abort(Exception):
                pass

            def boom(b):
                if b'\x01' in b:
                    raise Abort()
                return b
            try:
                if cfg['prior'] == 'abort':
                    # ... and left through an exception that a filter raises (one way to leave interact() from a
                    # program); what was pending has been shown by then and must not be shown again
                    try:
                        child.interact(input_filter=boom)
                        out['prior_error'] = 'interact() returned although its input filter raised'
                    except Abort:
                        out['prior_aborted'] = True
                else:
                    child.interact()
            except BaseException as e:
                out['prior_error'] = ''.join(traceback.format_exception_only(type(e), e)).strip()
            out['prior_mode_restored'] = (termios.tcgetattr(0) == m1)
            emit('PRIOR-DONE')
        # distinctive mode: canonical, no echo, no output post-processing, odd VMIN/VTIME-free flags
        a = termios.tcgetattr(0)
        a[1] &= ~termios.OPOST
        a[3] &= ~(termios.ECHO | termios.ECHOE | termios.ECHOK)
        a[3] |= termios.ICANON | termios.ISIG
        a[0] |= termios.ICRNL
        a[0] &= ~termios.IXON
        if cfg.get('entry_mode') == 'cbreak':
            # the application has already put its terminal in single-key mode (ICANON off) - but not raw: CR is still
            # translated, ^S/^Q and the signal keys are still acted on
            a[3] &= ~termios.ICANON
            a[0] |= termios.IXON
            a[6][termios.VMIN] = 1
            a[6][termios.VTIME] = 0
        termios.tcsetattr(0, termios.TCSANOW, a)
        before = termios.tcgetattr(0)
        if cfg.get('dead_first'):
            # the harness lets the inner child write its output and exit before interact() is even entered
            emit('WAIT-DEATH')
            os.read(cfg['_go_fd'], 1)
        journal_start = len(journal)
        real_os = ps.os
        ev = out['events']

        class OsProxy(object):
            def read(self, fd, n):
                d = real_os.read(fd, n)
                ev.append(['r', 'stdin' if fd == 0 else 'child' if fd == child.child_fd else str(fd), d.hex(), len(journal)])
                return d

            def write(self, fd, data):
                n = real_os.write(fd, data)
                ev.append(['w', 'stdout' if fd == 1 else 'child' if fd == child.child_fd else str(fd),
                           bytes(data[:n]).hex(), len(journal)])
                return n

            def __getattr__(self, name):
                return getattr(real_os, name)
        filt = cfg.get('filters') or {}

        def mk(kind):
            if kind == 'upper':
                return lambda b: b.upper()
            if kind == 'double':
                return lambda b: b + b
            if kind == 'drop-x':
                return lambda b: b.replace(b'x', b'')
            if kind == 'grow-a':
                return lambda b: b.replace(b'a', b'aaa')
            if kind == 'slow':
                def slow(b):
                    time.sleep(0.05)
                    return b
                return slow
            return None
        esc = cfg.get('escape', '\x1d')
        ps.os = OsProxy()
        emit('INTERACT')
        err = None
        try:
            child.interact(escape_character=esc, input_filter=mk(filt.get('input')),
                           output_filter=mk(filt.get('output')))
        except BaseException as e:
            err = ''.join(traceback.format_exception_only(type(e), e)).strip()
        finally:
            ps.os = real_os
        out['interact_error'] = err
        after = termios.tcgetattr(0)
        out['mode_restored'] = (after == before)
        out['mode_before'] = repr(before[:4])
        out['mode_after'] = repr(after[:4])
        out['journal'] = journal[journal_start:]
        out['alive_after'] = child.isalive()
        emit('RETURNED')
        # the inner child's report must be complete before anything is torn down:
        # wait for the harness to say so
        fin = os.read(cfg['_go_fd'], 1)
        try:
            child.close(force=True)
        except Exception:
            pass
    except BaseException as e:
        out['error'] = traceback.format_exc()[-1500:]
    try:
        emit('JSON ' + json.dumps(out))
    finally:
        os._exit(0)


class Session(object):
    """Harness side of one interact() run."""

    def __init__(self, cfg):
        self.cfg = dict(cfg)
        self.pup = Puppet()
        self.res_r, res_w = os.pipe()
        go_r, self.go_w = os.pipe()
        self.cfg['_go_fd'] = go_r
        sys.stdout.flush()
        sys.stderr.flush()
        pid, master = pty.fork()
        if pid == 0:
            try:
                os.close(self.res_r)
                os.close(self.go_w)
                signal.signal(signal.SIGHUP, signal.SIG_DFL)
                _driver(self.cfg, self.pup.argv, res_w)
            finally:
                os._exit(1)
        os.close(res_w)
        os.close(go_r)
        self.driver_pid = pid
        self.master = master
        self.resbuf = b''
        self.outer_rx = b''
        self.result = None

    def _status(self, timeout):
        t0 = time.time()
        while b'\n' not in self.resbuf:
            left = timeout - (time.time() - t0)
            if left <= 0:
                return None
            r, _, _ = select.select([self.res_r, self.master], [], [], left)
            if self.master in r:
                self._drain_master()
            if self.res_r in r:
                d = os.read(self.res_r, 1 << 16)
                if not d:
                    return None
                self.resbuf += d
        line, self.resbuf = self.resbuf.split(b'\n', 1)
        return line.decode()

    def expect_status(self, prefix, timeout=15):
        t0 = time.time()
        while time.time() - t0 < timeout:
            s = self._status(timeout - (time.time() - t0))
            if s is None:
                break
            if s.startswith(prefix):
                return s
            if s.startswith('JSON '):
                self.result = json.loads(s[5:])
                raise PeerError('driver ended early: %s' % (self.result.get('error') or self.result.get('interact_error')))
        return None

    def _drain_master(self):
        try:
            d = os.read(self.master, 1 << 16)
        except OSError:
            d = b''
        self.outer_rx += d
        return d

    def read_outer(self, n, timeout=10):
        """Wait until the outer master has received n bytes in total."""
        t0 = time.time()
        while len(self.outer_rx) < n and time.time() - t0 < timeout:
            r, _, _ = select.select([self.master], [], [], 0.05)
            if r:
                if not self._drain_master():
                    break
        return self.outer_rx

    def wait_raw(self, timeout=10):
        """interact() has switched the outer tty to raw mode (ICANON off)."""
        t0 = time.time()
        while time.time() - t0 < timeout:
            a = termios.tcgetattr(self.master)
            if not (a[3] & termios.ICANON) and not (a[3] & termios.ISIG) and not (a[0] & termios.ICRNL):
                return True
            time.sleep(0.002)
        return False

    def type(self, data):
        n = 0
        while n < len(data):
            n += os.write(self.master, data[n:])

    def finish(self, timeout=15):
        if self.result is None:
            try:
                os.write(self.go_w, b'g')
            except OSError:
                pass
            t0 = time.time()
            while self.result is None and time.time() - t0 < timeout:
                s = self._status(timeout - (time.time() - t0))
                if s is None:
                    break
                if s.startswith('JSON '):
                    self.result = json.loads(s[5:])
        return self.result

    def cleanup(self):
        for fd in (self.res_r, self.go_w, self.master):
            try:
                os.close(fd)
            except OSError:
                pass
        try:
            os.kill(self.driver_pid, signal.SIGKILL)
        except OSError:
            pass
        try:
            os.waitpid(self.driver_pid, 0)
        except OSError:
            pass
        if self.pup.pid:
            try:
                os.kill(self.pup.pid, signal.SIGKILL)
            except OSError:
                pass
        self.pup.cleanup()
