"""Harness side of the puppet peer + /proc ground truth helpers."""
import os
import select
import shutil
import sys
import tempfile
import time

PEERS = os.path.join(os.path.dirname(os.path.dirname(os.path.abspath(__file__))), 'peers')
PUPPET = os.path.join(PEERS, 'puppet.py')
PY = sys.executable


class PeerError(Exception):
    """The peer could not be driven: the case is inconclusive, not a violation."""


def proc_stat(pid):
    """(state, ppid, starttime, exit_code) or None if the pid is gone."""
    try:
        with open('/proc/%d/stat' % pid, 'rb') as f:
            raw = f.read().decode('latin-1')
    except (FileNotFoundError, ProcessLookupError):
        return None
    rest = raw[raw.rindex(')') + 2:].split()
    # rest[0] = state (field 3) ... field k is rest[k-3]
    return (rest[0], int(rest[1]), int(rest[19]), int(rest[49]) if len(rest) > 49 else None)


def wait_state(pid, states, timeout=10.0):
    t0 = time.time()
    while time.time() - t0 < timeout:
        st = proc_stat(pid)
        if st is None:
            if None in states:
                return None
        elif st[0] in states:
            return st
        time.sleep(0.002)
    raise PeerError('pid %d did not reach state %r (now %r)' % (pid, states, proc_stat(pid)))


def fd_readable(fd, timeout):
    r, _, _ = select.select([fd], [], [], timeout)
    return bool(r)


class Puppet(object):
    def __init__(self, opts=(), tmpdir=None):
        self.own_tmp = tmpdir is None
        self.tmp = tmpdir or tempfile.mkdtemp(prefix='pvmon-pup-')
        tag = '%d-%d' % (os.getpid(), id(self))
        self.ctl_path = os.path.join(self.tmp, 'ctl-' + tag)
        self.ack_path = os.path.join(self.tmp, 'ack-' + tag)
        os.mkfifo(self.ctl_path)
        os.mkfifo(self.ack_path)
        self.ctl = os.open(self.ctl_path, os.O_RDWR)
        self.ack = os.open(self.ack_path, os.O_RDWR)
        self.argv = [PY, '-S', '-E', PUPPET, self.ctl_path, self.ack_path] + list(opts)
        self.pid = None
        self.buf = b''

    def cleanup(self):
        for fd in (self.ctl, self.ack):
            try:
                os.close(fd)
            except OSError:
                pass
        if self.own_tmp:
            shutil.rmtree(self.tmp, ignore_errors=True)
        else:
            for p in (self.ctl_path, self.ack_path):
                try:
                    os.unlink(p)
                except OSError:
                    pass

    def _line(self, timeout):
        t0 = time.time()
        while b'\n' not in self.buf:
            left = timeout - (time.time() - t0)
            if left <= 0 or not fd_readable(self.ack, left):
                raise PeerError('no acknowledgement from the puppet within %.1fs' % timeout)
            self.buf += os.read(self.ack, 1 << 20)
        line, self.buf = self.buf.split(b'\n', 1)
        return line.decode('ascii')

    def wait_ready(self, timeout=15.0):
        line = self._line(timeout)
        if not line.startswith('ready '):
            raise PeerError('unexpected greeting %r' % line)
        self.pid = int(line.split()[1])
        return self.pid

    def cmd(self, line, want=None, timeout=15.0):
        os.write(self.ctl, (line + '\n').encode('ascii'))
        if want is None:
            return None
        got = self._line(timeout)
        if not got.startswith(want):
            raise PeerError('sent %r, acknowledged %r' % (line[:40], got[:80]))
        return got[len(want):].strip()

    def write(self, data):
        n = int(self.cmd('W ' + bytes(data).hex(), 'w'))
        if n != len(data):
            raise PeerError('puppet wrote %d of %d bytes' % (n, len(data)))

    def flood_start(self, stop, secs):
        """numbered lines without pause until the peer reads one of the bytes `stop` (or `secs` have passed)"""
        self.cmd('F %s %g' % (bytes(stop).hex(), secs))

    def flood_result(self, timeout):
        got = self._line(timeout)
        if not got.startswith('f '):
            raise PeerError('flood acknowledged %r' % got[:80])
        a = got.split()
        return int(a[1]), bool(int(a[2]))

    def close_stdio(self):
        self.cmd('C', 'c')

    def exit(self, code, wait=True):
        self.cmd('X %d' % code)
        if wait and self.pid:
            return wait_state(self.pid, ('Z', None))

    def kill_self(self, sig, wait=True):
        self.cmd('K %d' % sig)
        if wait and self.pid:
            return wait_state(self.pid, ('Z', None, 'T'))

    def dump_self(self, sig, wait=True):
        """die from `sig` with core files allowed (written, truncated, into the puppet's temporary directory)"""
        self.cmd('D %d %s' % (sig, self.tmp))
        if wait and self.pid:
            return wait_state(self.pid, ('Z', None, 'T'))

    def received(self):
        return bytes.fromhex(self.cmd('R', 'r'))

    def nreceived(self):
        a = self.cmd('N', 'n').split()
        return int(a[0]), bool(int(a[1]))

    def wait_received(self, n, timeout=15.0, strict=True):
        """Wait until the puppet has read n bytes (or end of input).  The clock restarts whenever more arrives.
        strict=False: when nothing more arrives for `timeout` seconds, return the count instead of raising - how
        much the peer received is then the observation to be judged, not a failure of the harness."""
        t0 = time.time()
        last = -1
        while True:
            k, eof = self.nreceived()
            if k >= n or eof:
                return k
            if k != last:
                last, t0 = k, time.time()
            if time.time() - t0 > timeout:
                if not strict:
                    return k
                raise PeerError('peer received %d of %d bytes' % (k, n))
            time.sleep(0.003)

    def set_echo(self, on):
        self.cmd('E %d' % (1 if on else 0), 'e')

    def ping(self):
        self.cmd('P', 'p')
