"""Generators of scripted histories (streams x splittings x call histories)."""
import itertools
import random

ALPHA = ['a', 'b', '\r', '\n', 'a', 'b', '\xe9']

RE_POOL = ['a', 'b', 'ab', 'ba', 'a+', 'a*', 'b*', '(?=b)', '$', r'\Z', 'b$',
           'a|b', 'ab|b', '(a)(b)?', '\r\n', '.', '.+?b', 'a.b', '[ab]{2}',
           'aa', 'x', 'a?', 'b\n', r'(?<=a)b', '^a', r'\bb', 'a{2,3}', 'ba*',
           '\xe9', '[^a]', 'A']
X_POOL = ['a', 'b', 'ab', 'ba', 'aab', '\r\n', 'abab', 'x', '', 'bb', 'aba',
          '\n', 'b\r', '\xe9a', 'baab']
T_POOL = [-1] * 14 + [0, 0, -3, 0.25, 0.55, 1.05, None]
W_POOL = [-1] * 14 + [None, None, 1, 2, 3, 4, 5, 8, 100]
DT_POOL = [0.0] * 12 + [0.1, 0.2, 0.4]


def rand_text(rng, n):
    return ''.join(rng.choice(ALPHA) for _ in range(n))


def rand_cuts(rng, text, maxpieces=8):
    n = len(text)
    if n == 0:
        return [''] if rng.random() < 0.3 else []
    k = rng.randint(0, min(maxpieces - 1, n))
    cuts = sorted(rng.sample(range(0, n + 1), k)) if k else []
    pieces, a = [], 0
    for c in cuts:
        pieces.append(text[a:c])
        a = c
    pieces.append(text[a:])
    return pieces


def script_from_pieces(rng, pieces, p_t=0.15, p_e=0.6, p_dt=0.1):
    script = []
    for pc in pieces:
        if rng.random() < p_t:
            script.append(['t'])
        if rng.random() < p_dt:
            script.append(['d', pc, rng.choice(DT_POOL)])
        else:
            script.append(['d', pc])
    if rng.random() < p_t:
        script.append(['t'])
    if rng.random() < p_e:
        script.append(['e'] if rng.random() < 0.9 else ['e', rng.choice(DT_POOL)])
    return script


def rand_pats(rng, kind, nmax=4):
    n = rng.randint(1, nmax)
    pool = X_POOL if kind == 'x' else RE_POOL
    pats = []
    for _ in range(n):
        s = rng.choice(pool)
        if kind == 'x':
            pats.append({'x': s})
        elif rng.random() < 0.15:
            # pre-compiled, with flags of its own (DOTALL, none, IGNORECASE, both) - and, for ASCII sources, sometimes
            # compiled in the other string type (a str regex for a bytes-mode object and the other way round)
            e = {'re': s, 'c': rng.choice([16, 16, 0, 2, 18])}
            if rng.random() < 0.5 and all(ord(ch) < 128 for ch in s):
                e['o'] = True
            pats.append(e)
        else:
            pats.append({'re': s})
    if rng.random() < 0.15 and len(pats) > 1:
        pats.append(dict(pats[0]))                # duplicate entry
    for m in ('EOF', 'TIMEOUT'):
        if rng.random() < 0.3:
            pats.insert(rng.randint(0, len(pats)), m)
    return pats


def rand_op(rng):
    r = rng.random()
    if r < 0.30:
        k = 'expect'
    elif r < 0.55:
        k = 'expect_exact'
    elif r < 0.62:
        k = 'expect_list'
    elif r < 0.68:
        k = 'loop_re'
    elif r < 0.74:
        k = 'loop_str'
    elif r < 0.82:
        return {'op': 'read', 'n': rng.choice([-1, 0, 1, 2, 3, 5])}
    elif r < 0.90:
        return {'op': 'readline'}
    elif r < 0.93:
        return {'op': 'readlines'}
    elif r < 0.95:
        return {'op': 'iter'}
    else:
        return {'op': 'setbuf', 'v': rand_text(rng, rng.randint(0, 6))}
    kind = 'x' if k in ('expect_exact', 'loop_str') else 're'
    op = {'op': k, 'pats': rand_pats(rng, kind), 'T': rng.choice(T_POOL),
          'W': rng.choice(W_POOL)}
    if k in ('expect', 'expect_exact') and rng.random() < 0.15:
        op['pats'] = [p for p in op['pats'] if p not in ('EOF', 'TIMEOUT')][:1] or op['pats'][:1]
        op['single'] = True
    return op


def rand_case(rng):
    text = rand_text(rng, rng.randint(0, 40))
    enc = None if rng.random() < 0.5 else 'utf-8'
    case = {
        'enc': enc,
        'isws': rng.choice([None] * 8 + [1, 2, 3, 5, 8, 100]),
        'maxread': rng.choice([2000] * 6 + [1, 2, 3, 5]),
        'script': script_from_pieces(rng, rand_cuts(rng, text)),
        'ops': [rand_op(rng) for _ in range(rng.randint(1, 8))],
    }
    if rng.random() < 0.1:
        case['ignorecase'] = True
    return case


def straddle_case(rng):
    """An occurrence of an exact string (or of a regex literal) is cut at each
    of its internal positions; the window / look-back machinery sees it only
    across a read boundary."""
    lit = rng.choice(['ab', 'aba', 'abab', 'baab', 'aab', '\r\n', 'bb', 'ab\r\n'])
    pre = rand_text(rng, rng.randint(0, 12)).replace(lit, 'x')
    while lit in pre + lit[:-1]:
        pre = pre.replace(lit[0], 'x')
    suf = rand_text(rng, rng.randint(0, 6))
    text = pre + lit + suf
    cut = len(pre) + rng.randint(1, len(lit) - 1)
    pieces = rand_cuts(rng, text[:cut], 3) + rand_cuts(rng, text[cut:], 3)
    kind = rng.choice(['expect_exact', 'loop_str', 'expect'])
    if kind == 'expect':
        import re
        pats = [{'re': re.escape(lit)}]
    else:
        pats = [{'x': lit}]
    others = rand_pats(rng, 'x' if kind != 'expect' else 're', 2)
    if rng.random() < 0.5:
        pats = pats + [p for p in others if p not in ('EOF', 'TIMEOUT')]
    W = rng.choice([-1, -1, None, len(lit), len(lit) + 1, len(lit) - 1, 100])
    ops = []
    if rng.random() < 0.4:
        # an earlier call that times out and leaves a trimmed search buffer
        ops.append({'op': rng.choice(['expect_exact', 'expect']),
                    'pats': [{'x': 'x'}] if rng.random() < 0.5 else [{'re': 'zz'}],
                    'T': 0.25, 'W': rng.choice([-1, 1, 2, 3])})
        if ops[0]['op'] == 'expect' and 'x' in ops[0]['pats'][0]:
            ops[0]['pats'] = [{'re': 'zz'}]
        if ops[0]['op'] == 'expect_exact' and 're' in ops[0]['pats'][0]:
            ops[0]['pats'] = [{'x': 'zz'}]
    ops.append({'op': kind, 'pats': pats, 'T': -1, 'W': W})
    ops.append(rand_op(rng))
    script = []
    tpos = rng.randint(0, len(pieces)) if len(ops) == 3 and ops[0].get('T') == 0.25 else None
    for j, pc in enumerate(pieces):
        if tpos == j:
            script.append(['t'])
        script.append(['d', pc])
    if rng.random() < 0.5:
        script.append(['e'])
    return {'enc': rng.choice([None, 'utf-8']), 'isws': rng.choice([None, None, 2, 3, 4]),
            'maxread': rng.choice([2000, 2000, 1, 2]), 'script': script, 'ops': ops}


def all_splittings(text, maxcuts):
    n = len(text)
    for k in range(0, maxcuts + 1):
        for cuts in itertools.combinations(range(1, n), k):
            pieces, a = [], 0
            for c in cuts:
                pieces.append(text[a:c])
                a = c
            pieces.append(text[a:])
            yield pieces


EXH_LISTS = [
    [('expect_exact', [{'x': 'ab'}, {'x': 'b'}, 'EOF']),
     ('expect', [{'re': 'a+'}, 'TIMEOUT', {'re': 'b\n'}])],
    [('expect', [{'re': 'b$'}, {'re': 'ab'}]), ('expect_exact', [{'x': 'a'}, 'EOF'])],
    [('loop_str', [{'x': 'aba'}, {'x': 'bb'}, 'TIMEOUT']),
     ('expect', [{'re': '(?=b)'}, {'re': 'a'}, 'EOF'])],
]


def exhaustive_cases(alpha, maxlen, maxcuts, windows=(None, 2)):
    """All streams over `alpha` up to maxlen x all splittings (<= maxcuts cuts)
    x the fixed pattern lists x windows."""
    for n in range(0, maxlen + 1):
        for tup in itertools.product(alpha, repeat=n):
            text = ''.join(tup)
            for pieces in (all_splittings(text, maxcuts) if n else [[]]):
                script = [['d', p] for p in pieces] + [['e']]
                for li, lst in enumerate(EXH_LISTS):
                    for W in windows:
                        ops = [{'op': k, 'pats': p, 'T': -1, 'W': -1} for k, p in lst]
                        ops.append({'op': 'read', 'n': -1})
                        yield {'enc': None, 'isws': W, 'maxread': 2000,
                               'script': script, 'ops': ops}


def rng_for(seed, shard, salt=0):
    return random.Random((seed * 1000003 + shard) * 7919 + salt)
