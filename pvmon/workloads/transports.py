"""The four real transports behind one small interface.

Link(kind, encoding=..., **spawn_kw):
    .child            the pexpect object (spawn / fdspawn / PopenSpawn / SocketSpawn)
    .peer_write(b)    the peer writes these bytes (returns when they are written
                      and, for pty/popen, acknowledged by the peer process)
    .peer_close()     the peer closes its side / exits (EOF for the reader)
    .peer_received()  bytes the peer has read so far (raw)
    .cleanup()
"""
import os
import socket
import time

import pexpect
from pexpect import fdpexpect, popen_spawn, socket_pexpect

from .puppetctl import Puppet, PeerError, wait_state, fd_readable

KINDS = ('fd', 'socket', 'popen', 'pty')


class Link(object):
    def __init__(self, kind, **kw):
        self.kind = kind
        self.pup = None
        self.peer_fd = None
        self.peer_sock = None
        self.child = None
        self.extra_fds = []
        if kind == 'fd':
            # two pipes: child reads r1 ... sends need a writable fd; fdspawn
            # uses one descriptor for both directions, so use a socketpair's fd
            a, b = socket.socketpair()
            self.keep = a
            self.peer_sock = b
            self.child = fdpexpect.fdspawn(a.fileno(), **kw)
            self._start_drain()
        elif kind == 'pipe':
            r, w = os.pipe()
            self.peer_fd = w
            self.extra_fds.append(r)
            self.child = fdpexpect.fdspawn(r, **kw)
        elif kind == 'socket':
            a, b = socket.socketpair()
            self.peer_sock = b
            self.sock = a
            self.child = socket_pexpect.SocketSpawn(a, **kw)
            self._start_drain()
        elif kind == 'popen':
            self.pup = Puppet()
            self.child = popen_spawn.PopenSpawn(self.pup.argv, **kw)
            self.pup.wait_ready()
        elif kind == 'pty':
            self.pup = Puppet()
            self.child = pexpect.spawn(self.pup.argv[0], self.pup.argv[1:], **kw)
            self.pup.wait_ready()
        else:
            raise ValueError(kind)
        self.closed_peer = False

    def peer_write(self, data):
        if not data:
            return
        if self.pup:
            self.pup.write(data)
            if self.kind == 'pty':
                if not fd_readable(self.child.child_fd, 10):
                    raise PeerError('written data not readable on the master')
        elif self.peer_sock is not None:
            self.peer_sock.sendall(data)
        else:
            n = 0
            while n < len(data):
                n += os.write(self.peer_fd, data[n:])

    def peer_write_nowait(self, data):
        if self.peer_sock is not None:
            self.peer_sock.sendall(data)
        else:
            n = 0
            while n < len(data):
                n += os.write(self.peer_fd, data[n:])

    def peer_close_nowait(self):
        self.closed_peer = True
        if self.peer_sock is not None:
            self.peer_sock.shutdown(socket.SHUT_WR)
        else:
            os.close(self.peer_fd)
            self.peer_fd = None

    def peer_close(self):
        if self.closed_peer:
            return
        self.closed_peer = True
        if self.pup:
            self.pup.exit(0)
        elif self.peer_sock is not None:
            self.peer_sock.shutdown(socket.SHUT_WR)
        else:
            os.close(self.peer_fd)
            self.peer_fd = None

    def peer_gone(self):
        """after peer_close(): the peer's end disappears altogether (a write towards it is refused)"""
        if self.peer_sock is not None:
            try:
                self.peer_sock.shutdown(socket.SHUT_RDWR)
            except OSError:
                pass
            self.peer_sock.close()
        elif self.peer_fd is not None:
            os.close(self.peer_fd)
            self.peer_fd = None

    def peer_received(self, n=None):
        if self.pup:
            if n is not None:
                self.pup.wait_received(n, timeout=10.0, strict=False)
            return self.pup.received()
        if self.peer_sock is not None:
            self._start_drain()
            t0 = time.time()
            while n is not None and len(self._rx) < n and time.time() - t0 < 15 and not self._rx_eof:
                time.sleep(0.0005)
            if n is None:
                time.sleep(0.01)
            return bytes(self._rx)
        return b''

    def _start_drain(self):
        """In-process peers read concurrently (a large send would otherwise
        block on a full socket buffer)."""
        if getattr(self, '_drain', None) is not None:
            return
        import threading
        self._rx = bytearray()
        self._rx_eof = False
        sock = self.peer_sock

        def run():
            while True:
                try:
                    d = sock.recv(1 << 16)
                except OSError:
                    d = b''
                if not d:
                    self._rx_eof = True
                    return
                self._rx.extend(d)
        self._drain = threading.Thread(target=run, daemon=True)
        self._drain.start()

    def cleanup(self):
        c = self.child
        try:
            if self.kind == 'popen':
                try:
                    c.proc.kill()
                except Exception:
                    pass
                try:
                    c.proc.wait(5)
                except Exception:
                    pass
                for f in (c.proc.stdin, c.proc.stdout):
                    try:
                        f.close()
                    except Exception:
                        pass
            elif self.kind == 'pty':
                try:
                    c.close(force=True)
                except Exception:
                    pass
            elif self.kind in ('fd', 'pipe'):
                pass
            elif self.kind == 'socket':
                pass
        finally:
            for s in (self.peer_sock, getattr(self, 'keep', None), getattr(self, 'sock', None)):
                if s is not None:
                    try:
                        s.close()
                    except Exception:
                        pass
            for fd in [self.peer_fd] + self.extra_fds:
                if fd is not None:
                    try:
                        os.close(fd)
                    except OSError:
                        pass
            if self.pup:
                self.pup.cleanup()
