import argparse
import os
import sys


def main(argv=None):
    ap = argparse.ArgumentParser(prog='pvmon')
    sub = ap.add_subparsers(dest='cmd', required=True)
    c = sub.add_parser('check')
    c.add_argument('pid')
    c.add_argument('--tier', default=None, choices=['quick', 'thorough'])
    c.add_argument('--replay', default=None)
    s = sub.add_parser('shard')
    s.add_argument('pid')
    s.add_argument('spec')
    s.add_argument('out')
    sub.add_parser('selftest')
    a = ap.parse_args(argv)

    if a.cmd == 'shard':
        from .core.runner import shard_main
        return shard_main(a.pid, a.spec, a.out)
    if a.cmd == 'selftest':
        from .core.selftest import selftest
        return selftest()
    from .core.runner import check_main
    tier = a.tier or os.environ.get('VERIF_TIER') or 'quick'
    if tier not in ('quick', 'thorough'):
        tier = 'quick'
    try:
        seed = int(os.environ.get('VERIF_SEED', '0'))
    except ValueError:
        seed = 0
    return check_main(a.pid, tier, seed, a.replay)


if __name__ == '__main__':
    sys.exit(main())
