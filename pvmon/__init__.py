"""pvmon - runtime monitors for pexpect (see /verif/DESIGN.md).

Importing this package puts the repository under test first on sys.path:
$PVMON_REPO (used when a scratch copy is audited) or /repo.
"""
import os
import sys

REPO = os.path.realpath(os.environ.get('PVMON_REPO', '/repo'))
VERIF = os.path.dirname(os.path.dirname(os.path.realpath(__file__)))

if REPO not in sys.path[:1]:
    sys.path.insert(0, REPO)
sys.dont_write_bytecode = True


def repo_check():
    """Return None when pexpect is imported from REPO, else a reason."""
    import pexpect
    f = os.path.realpath(pexpect.__file__)
    if not f.startswith(REPO + os.sep):
        return 'pexpect imported from %s, not from %s' % (f, REPO)
    return None
