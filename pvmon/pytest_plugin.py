"""pytest plugin (H9): run the repository's own tests with the passive monitors
attached.  usage (from the repository root):
    PYTHONPATH=/verif PVMON_H9_OUT=/path/report.json python -m pytest -p pvmon.pytest_plugin tests/...
"""
import json
import os


def pytest_configure(config):
    from pvmon import passive
    passive.install()


def pytest_sessionfinish(session, exitstatus):
    from pvmon import passive
    out = os.environ.get('PVMON_H9_OUT')
    if out:
        with open(out, 'w') as f:
            json.dump({'counters': passive.STATE['counters'], 'violations': passive.STATE['violations'],
                       'exitstatus': int(exitstatus)}, f, indent=1)
